// Environment for the channel unit (vm/src/channel.rs).
// `Value` is opaque: the unit never looks inside a value.
#[verifier::external_body]
pub struct Value { _p: () }

impl Value {
    // R-gc: clone_unrooted() copies the (pointer-sized) value representation without rooting it;
    // assumed identity on the abstract value.
    #[verifier::external_body]
    pub fn clone_unrooted(&self) -> (r: Value)
        ensures r == *self
    { unimplemented!() }
}

// "structurally equal copy" (what crossing a channel means for a value); uninterpreted
pub uninterp spec fn same_value(a: Value, b: Value) -> bool;

// api::Generic<A> / thread::RootedValue: wrappers around one Value
pub struct Generic { pub v: Value }
pub struct RootedValue { pub v: Value }
impl Generic {
    #[verifier::external_body]
    pub fn get_value(&self) -> (r: &Value) ensures *r == self.v { unimplemented!() }
}
impl RootedValue {
    #[verifier::external_body]
    pub fn get_value(&self) -> (r: &Value) ensures *r == self.v { unimplemented!() }
}
#[verifier::external_body]
pub struct VmError { _p: () }
#[verifier::external_body]
pub struct ThreadPtr { _p: () }
// C13: `v` lives in a heap that thread `t` may point into (its own or an ancestor's): what Thread::deep_clone_value
// establishes for its RECEIVER (`self`); proved for the real function in the C13 clone unit, assumed here
pub uninterp spec fn holdable_by(v: Value, t: ThreadPtr) -> bool;
impl ThreadPtr {
    // ASSUMED contract of Thread::deep_clone_value: a structurally equal copy in the receiving heap, or an error
    #[verifier::external_body]
    pub fn deep_clone_value(&self, owner: &ThreadPtr, value: &Value) -> (r: Result<RootedValue, VmError>)
        ensures r is Ok ==> same_value(r->Ok_0.v, *value) && holdable_by(r->Ok_0.v, *self)
    { unimplemented!() }
}
// api::IO: same variants
pub enum IO<T> { Value(T), Exception(String) }
// api::Unrooted<A>: wrapper around one Value
pub struct Unrooted { pub v: Value }
impl Unrooted {
    #[verifier::external_body]
    pub fn from(v: Value) -> (r: Unrooted) ensures r.v == v { unimplemented!() }
}

// ---- the resume primitive
pub enum Poll<T> { Ready(T), Pending }
#[verifier::external_body] pub struct OwnedCtx { _p: () }
#[verifier::external_body] pub struct ErrPayload { _p: () }
// thread.rs Error: `Dead` and the rest
pub enum Error { Dead, Other(ErrPayload) }
#[verifier::external_body]
pub fn dead_thread_msg() -> String { unimplemented!() }
#[verifier::external_body]
pub fn fmt_vm_error(e: Error) -> String { unimplemented!() }

// Sender/Receiver projected to the one field the extracted bodies touch.  In the real code both hold
// `queue: Arc<Mutex<VecDeque<Value>>>` pointing to the *same* deque; under R-lock each body is the
// critical section on that deque.
pub struct Sender { pub thread: ThreadPtr, pub queue: VecDeque<Value> }
pub struct Receiver { pub queue: VecDeque<Value> }

// ---- the property as a lemma over the two contracts --------------------------------------
pub enum Op { Send(Value), Recv }

pub struct St { pub q: Seq<Value>, pub sent: Seq<Value>, pub received: Seq<Value>, pub empties: nat }

// one step, defined *by the postconditions* of Sender::send / Receiver::try_recv below
pub open spec fn step(s: St, op: Op) -> St {
    match op {
        Op::Send(v) => St { q: s.q.push(v), sent: s.sent.push(v), ..s },
        Op::Recv => if s.q.len() == 0 { St { empties: s.empties + 1, ..s } }
                    else { St { q: s.q.skip(1), received: s.received.push(s.q[0]), ..s } },
    }
}

pub open spec fn run(ops: Seq<Op>) -> St
    decreases ops.len()
{
    if ops.len() == 0 { St { q: Seq::empty(), sent: Seq::empty(), received: Seq::empty(), empties: 0 } }
    else { step(run(ops.drop_last()), ops.last()) }
}

// For every history of sends and receives on one channel: what was received, followed by what is
// still queued, is exactly what was sent, in order -- every value delivered at most once, none lost,
// none reordered; a receive on an empty queue only reports emptiness.
pub proof fn lemma_fifo(ops: Seq<Op>)
    ensures run(ops).received + run(ops).q =~= run(ops).sent,
            run(ops).received.len() <= run(ops).sent.len(),
    decreases ops.len()
{
    if ops.len() > 0 {
        lemma_fifo(ops.drop_last());
        let s = run(ops.drop_last());
        match ops.last() {
            Op::Send(v) => {
                assert((s.received + s.q).push(v) =~= s.received + s.q.push(v));
            }
            Op::Recv => {
                if s.q.len() > 0 {
                    assert(s.received.push(s.q[0]) + s.q.skip(1) =~= s.received + s.q);
                }
            }
        }
    }
}

// std, documented: Result::unwrap_or_default returns the Ok value, or T::default() for an Err
pub assume_specification<T: core::default::Default, E> [core::result::Result::<T, E>::unwrap_or_default] (r0: core::result::Result<T, E>) -> (r: T)
    ensures r0 is Ok ==> r == r0->Ok_0;
