// Environment for the compiler unit (vm/src/types.rs Instruction::adjust, vm/src/compiler.rs FunctionEnv).
pub type VmIndex = u32;
pub type VmTag = u32;
pub type VmInt = i64;

#[verifier::external_body]
pub struct EqFloat { _p: () }
impl Clone for EqFloat { #[verifier::external_body] fn clone(&self) -> (r: EqFloat) ensures r == *self { unimplemented!() } }
impl Copy for EqFloat {}

// Same variants, payload names and payload types as vm/src/types.rs::Instruction (checked by name each run).
pub enum Instruction {
    PushInt(VmInt), PushByte(u8), PushFloat(EqFloat), PushString(VmIndex), PushUpVar(VmIndex), Push(VmIndex),
    Call(VmIndex), TailCall(VmIndex),
    ConstructVariant { tag: VmIndex, args: VmIndex }, ConstructPolyVariant { tag: VmIndex, args: VmIndex },
    NewVariant { tag: VmIndex, args: VmIndex }, NewRecord { record: VmIndex, args: VmIndex },
    CloseData { index: VmIndex }, ConstructRecord { record: VmIndex, args: VmIndex }, ConstructArray(VmIndex),
    GetOffset(VmIndex), GetField(VmIndex), Split, TestTag(VmTag), TestPolyTag(VmIndex),
    Jump(VmIndex), CJump(VmIndex), Pop(VmIndex), Slide(VmIndex),
    MakeClosure { function_index: VmIndex, upvars: VmIndex }, NewClosure { function_index: VmIndex, upvars: VmIndex },
    CloseClosure(VmIndex),
    AddInt, SubtractInt, MultiplyInt, DivideInt, IntLT, IntEQ,
    AddByte, SubtractByte, MultiplyByte, DivideByte, ByteLT, ByteEQ,
    AddFloat, SubtractFloat, MultiplyFloat, DivideFloat, FloatLT, FloatEQ,
    Return,
}
use Instruction::*;

// The documented stack effect of each instruction (from the doc comments on `Instruction` and the
// reference semantics of the VM: how many slots the instruction adds (+) or removes (-)).
//   push-like: +1;  Call/TailCall(n): the n arguments go, the function slot is replaced by the result: -n
//   Construct*{args}/ConstructArray(args): args values replaced by one: 1 - args
//   GetOffset/GetField: object replaced by field: 0;  TestTag/TestPolyTag: pushes a Bool: +1
//   Jump: 0; CJump: pops the condition: -1;  Pop(n): -n;  Slide(n): -n (top kept, n below it dropped)
//   MakeClosure/NewClosure/NewVariant/NewRecord: one new value: +1 (MakeClosure's upvars are accounted separately)
//   CloseClosure: -1;  CloseData: 0;  Split: pops the object: -1 (the pushed fields are accounted by the compiler)
//   binary arithmetic / comparison: two operands replaced by one result: -1;  Return: 0
pub open spec fn stack_effect(i: Instruction) -> int {
    match i {
        PushInt(_) | PushByte(_) | PushFloat(_) | PushString(_) | PushUpVar(_) | Push(_) => 1,
        Call(n) | TailCall(n) | Pop(n) | Slide(n) => -(n as int),
        ConstructVariant { args, .. } | ConstructPolyVariant { args, .. } | ConstructRecord { args, .. } | ConstructArray(args) => 1 - args,
        GetOffset(_) | GetField(_) | Jump(_) | CloseData { .. } | Return => 0,
        TestTag(_) | TestPolyTag(_) | NewVariant { .. } | NewRecord { .. } | MakeClosure { .. } | NewClosure { .. } => 1,
        Split | CJump(_) | CloseClosure(_) => -1,
        AddInt | SubtractInt | MultiplyInt | DivideInt | IntLT | IntEQ
        | AddByte | SubtractByte | MultiplyByte | DivideByte | ByteLT | ByteEQ
        | AddFloat | SubtractFloat | MultiplyFloat | DivideFloat | FloatLT | FloatEQ => -1,
    }
}

// operand small enough that the i32 effect is exact (every count in a compiled function is bounded by
// its number of stack slots; 2^31 operands cannot be produced by a source program that fits in memory)
pub open spec fn operand_fits(i: Instruction) -> bool {
    match i {
        Call(n) | TailCall(n) | Pop(n) | Slide(n) | ConstructArray(n) => n <= i32::MAX,
        ConstructVariant { args, .. } | ConstructPolyVariant { args, .. } | ConstructRecord { args, .. } => args <= i32::MAX,
        _ => true,
    }
}

// compiler.rs: debug info sink (opaque)
#[verifier::external_body]
pub struct Line { _p: () }
impl Clone for Line { #[verifier::external_body] fn clone(&self) -> Line { unimplemented!() } }
impl Copy for Line {}
#[verifier::external_body]
pub struct SourceMap { _p: () }
impl SourceMap {
    #[verifier::external_body]
    pub fn emit(&mut self, instruction_index: usize, current_line: Line) { unimplemented!() }
}
// names, types, and the scoped variable map of FunctionEnv projected on a ghost view: the slot a name currently denotes
#[verifier::external_body] pub struct Symbol { _p: () }
impl Clone for Symbol { #[verifier::external_body] fn clone(&self) -> (r: Symbol) ensures r == *self { unimplemented!() } }
#[verifier::external_body] pub struct ArcType { _p: () }
impl Clone for ArcType { #[verifier::external_body] fn clone(&self) -> (r: ArcType) ensures r == *self { unimplemented!() } }
// `a != b` on Symbol (derived/hand-written PartialEq, no specification needed here)
#[verifier::external_body] pub fn sym_ne(a: &Symbol, b: &Symbol) -> bool { unimplemented!() }
#[verifier::external_body] pub struct VarMap { _p: () }
impl VarMap {
    pub uninterp spec fn slot(&self, s: Symbol) -> Option<VmIndex>;
    // base::scoped_map::ScopedMap::insert: the name now denotes the new entry, other names are unaffected (ASSUMED)
    #[verifier::external_body]
    pub fn insert(&mut self, s: Symbol, v: (VmIndex, ArcType))
        ensures final(self).slot(s) == Some(v.0), forall|t: Symbol| t != s ==> final(self).slot(t) == old(self).slot(t)
    { unimplemented!() }
}
#[verifier::external_body] pub struct LocalMap { _p: () }
impl LocalMap {
    #[verifier::external_body]
    pub fn emit(&mut self, instruction_index: usize, index: VmIndex, s: Symbol, typ: ArcType) { unimplemented!() }
}
pub struct DebugInfo { pub source_map: SourceMap, pub local_map: LocalMap }

// CompiledFunction / FunctionEnv projected to the fields the extracted bodies touch
pub struct CompiledFunction { pub max_stack_size: VmIndex, pub instructions: Vec<Instruction>, pub debug_info: DebugInfo }
pub struct FunctionEnv { pub stack: VarMap, pub stack_size: VmIndex, pub current_line: Line, pub emit_debug_info: bool, pub function: CompiledFunction }

impl FunctionEnv {
    // invariant of the static stack accounting: the recorded maximum dominates the current size
    pub open spec fn wf(&self) -> bool { self.function.max_stack_size >= self.stack_size }
}

// R-path: std::cmp::max at u32
pub fn max(a: VmIndex, b: VmIndex) -> (r: VmIndex)
    ensures r >= a, r >= b, r == a || r == b
{ if a >= b { a } else { b } }

// ---- thread.rs ProgramCounter (same fields)
pub struct ProgramCounter<'a> { pub instruction_index: usize, pub instructions: &'a [Instruction] }

pub open spec fn is_return(i: Instruction) -> bool { i is Return }

impl<'a> ProgramCounter<'a> {
    // the invariant that makes `get_unchecked` sound
    pub open spec fn inv(&self) -> bool {
        self.instruction_index < self.instructions@.len() && is_return(self.instructions@.last())
        && self.instructions@.len() <= usize::MAX  // a slice length is a usize
    }
}

// R-assert helper: `instructions.last() == Some(&Return)` (PartialEq on Instruction is derived; assumed structural)
#[verifier::external_body]
pub fn last_is_return(instructions: &[Instruction]) -> (b: bool)
    ensures b == (instructions@.len() > 0 && is_return(instructions@.last()))
{ unimplemented!() }

// R-unsafe helper: slice::get_unchecked(i) is UB unless i < len -- stated as its precondition
#[verifier::external_body]
pub fn get_unchecked(s: &[Instruction], i: usize) -> (r: &Instruction)
    requires i < s@.len()
    ensures *r == s@[i as int]
{ unimplemented!() }

impl Clone for Instruction { #[verifier::external_body] fn clone(&self) -> (r: Instruction) ensures r == *self { unimplemented!() } }
impl Copy for Instruction {}

#[verifier::external_body]
pub fn rt_panic() -> !
    requires false
{ panic!() }

// ---- compile_primitive's short-circuit blocks (compiler.rs)
#[verifier::external_body] pub struct Expr { _p: () }
pub uninterp spec fn expr_id(e: Expr) -> int;
#[verifier::external_body] pub struct CErr { _p: () }
// the recursive compiler, opaque; a ghost log records every sub-expression compiled and with which tail flag
#[verifier::external_body] pub struct CompilerRest { _p: () }
pub struct Compiler { pub empty_symbol: Symbol, pub rest: CompilerRest }
impl Compiler {
    pub uninterp spec fn log(&self) -> Seq<(int, bool)>;
    // ASSUMED contract of Compiler::compile on a sub-expression: appends code only (everything emitted before stays),
    // leaves exactly one more value on the static stack, keeps the accounting invariant, and functions stay far below
    // 2^31 instructions / 2^31 slots
    #[verifier::external_body]
    pub fn compile(&mut self, e: &Expr, function: &mut FunctionEnv, tail_position: bool) -> (r: Result<(), CErr>)
        requires old(function).wf()
        ensures
            final(self).log() == old(self).log().push((expr_id(*e), tail_position)),
            r is Ok ==> final(function).wf()
                && final(function).function.instructions@.len() >= old(function).function.instructions@.len()
                && final(function).function.instructions@.take(old(function).function.instructions@.len() as int) == old(function).function.instructions@
                && final(function).stack_size == old(function).stack_size + 1
                && final(function).function.max_stack_size >= old(function).function.max_stack_size
                && final(function).function.instructions@.len() < 0x4000_0000
                && final(function).stack_size < 0x4000_0000,
    { unimplemented!() }
}

// a run-time guard that is ALLOWED to fire (the function then does not return): used where the assertion itself is the
// mechanism that establishes the postcondition, so the contract is "on return the invariant holds"
#[verifier::external_body]
pub fn rt_guard() -> !
{ panic!() }

// core::Alternative / core::Pattern: same variants; identifiers, literals and record fields opaque
#[verifier::external_body] pub struct PatX { _p: () }
pub enum Pattern { Constructor(PatX, Vec<PatX>), Record { typ: PatX, fields: PatX }, Ident(PatX), Literal(PatX) }
pub struct Alternative { pub pattern: Pattern, pub expr: Expr }
impl Compiler {
    // stands for the statement `match alt.pattern { .. }` of the Match arm of compile_ (see spec.toml): NOT under contract
    #[verifier::external_body]
    pub fn bind_alternative_pattern(&mut self, alt: &Alternative, function: &mut FunctionEnv, start_index: usize) -> (r: Result<(), CErr>)
        requires old(function).wf()
        ensures final(self).log() == old(self).log(), r is Ok ==> final(function).wf()
    { unimplemented!() }
}
