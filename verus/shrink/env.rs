// Environment for the shrink unit (parser/src/lib.rs shrink_hidden_spans): the AST projected on what the function reads --
// the span of every node and, per expression kind, its LAST visible sub-expression.  Arena references (`&'ast mut T`)
// are boxes here; payloads the function never looks at are opaque (`X`).
#[verifier::external_body] pub struct X { _p: () }
pub type BytePos = u32;
#[derive(Clone, Copy)]
pub struct Span { pub start: BytePos, pub end: BytePos }
impl Span {
    // base/src/pos.rs Span::new orders its arguments.  ASSUMED here, PROVED on the compiled code by the Kani harness
    // C08/span/new_is_ordered
    #[verifier::external_body]
    pub fn new(a: BytePos, b: BytePos) -> (r: Span)
        ensures r.start == (if a <= b { a } else { b }), r.end == (if a <= b { b } else { a })
    { unimplemented!() }
    pub fn start(self) -> (r: BytePos) ensures r == self.start { self.start }
    pub fn end(self) -> (r: BytePos) ensures r == self.end { self.end }
}
pub struct SpannedExpr { pub span: Span, pub value: Expr }
pub struct Do { pub id: Option<X>, pub typ: Option<X>, pub bound: Box<SpannedExpr>, pub body: Box<SpannedExpr>, pub flat_map_id: Option<X> }
pub struct Lambda { pub id: X, pub args: X, pub body: Box<SpannedExpr> }
pub struct Alternative { pub pattern: X, pub expr: SpannedExpr }
// base/src/ast.rs Expr: same variants (checked by name every run)
pub enum Expr {
    Ident(X),
    Literal(X),
    App { func: Box<SpannedExpr>, implicit_args: X, args: X },
    Lambda(Lambda),
    IfElse(Box<SpannedExpr>, Box<SpannedExpr>, Box<SpannedExpr>),
    Match(Box<SpannedExpr>, Vec<Alternative>),
    Infix { lhs: Box<SpannedExpr>, op: X, rhs: Box<SpannedExpr>, implicit_args: X },
    Projection(Box<SpannedExpr>, X, X),
    Array(X),
    Record { typ: X, types: X, exprs: X, base: X },
    Tuple { typ: X, elems: X },
    LetBindings(X, Box<SpannedExpr>),
    TypeBindings(X, Box<SpannedExpr>),
    Block(Vec<SpannedExpr>),
    Do(Do),
    MacroExpansion { original: Box<SpannedExpr>, replacement: Box<SpannedExpr> },
    Annotated(Box<SpannedExpr>, X),
    Error(X),
}

// THE SPECIFICATION (mine, from the doc comment "shrink hidden spans to fit the visible expressions" and the grammar): for
// each kind of expression whose concrete syntax ENDS with a sub-expression, where that sub-expression ends
pub open spec fn visible_end(e: Expr) -> Option<BytePos> {
    match e {
        Expr::Infix { lhs, op, rhs, implicit_args } => Some(rhs.span.end),
        Expr::IfElse(_, _, else_) => Some(else_.span.end),
        Expr::TypeBindings(_, body) => Some(body.span.end),
        Expr::LetBindings(_, body) => Some(body.span.end),
        Expr::Do(d) => Some(d.body.span.end),
        Expr::Lambda(l) => Some(l.body.span.end),
        Expr::Block(exprs) => if exprs@.len() >= 2 { Some(exprs@[exprs@.len() - 1].span.end) } else { None },
        Expr::Match(_, alts) => if alts@.len() >= 1 { Some(alts@[alts@.len() - 1].expr.span.end) } else { None },
        _ => None,
    }
}
pub open spec fn is_singleton_block(e: Expr) -> bool { e is Block && e->Block_0@.len() == 1 }
// R-slice: `[e] => return std::mem::take(e)`: the only element is moved out
#[verifier::external_body]
pub fn take_only(v: &mut Vec<SpannedExpr>) -> (r: SpannedExpr)
    requires old(v)@.len() == 1
    ensures r == old(v)@[0]
{ unimplemented!() }
// R-slice: `xs.last()` (std: the last element, None for an empty slice)
#[verifier::external_body]
pub fn last_expr(v: &Vec<SpannedExpr>) -> (r: Option<&SpannedExpr>)
    ensures v@.len() == 0 ==> r is None, v@.len() > 0 ==> r is Some && *r->Some_0 == v@[v@.len() - 1]
{ unimplemented!() }
#[verifier::external_body]
pub fn last_alt(v: &Vec<Alternative>) -> (r: Option<&Alternative>)
    ensures v@.len() == 0 ==> r is None, v@.len() > 0 ==> r is Some && *r->Some_0 == v@[v@.len() - 1]
{ unimplemented!() }

// ---- grammar.lalrpop, BlockExpr: the arena (allocation = boxing here; `alloc_do` is `alloc` at type Do, which the env holds
// by value) and base::pos::spanned2 = spanned(span(start, end), value) with span = Span::new (3 one-line functions in pos.rs, ASSUMED)
pub struct Arena;
impl Arena {
    #[verifier::external_body]
    pub fn alloc(&self, e: SpannedExpr) -> (r: Box<SpannedExpr>) ensures *r == e { unimplemented!() }
    pub fn alloc_do(&self, d: Do) -> (r: Do) ensures r == d { d }
}
pub mod pos {
    use super::*;
    pub fn spanned(span: Span, value: Expr) -> (r: SpannedExpr) ensures r.span == span, r.value == value { SpannedExpr { span, value } }
    pub fn spanned2(start: BytePos, end: BytePos, value: Expr) -> (r: SpannedExpr)
        ensures r.span.start == (if start <= end { start } else { end }), r.span.end == (if start <= end { end } else { start }), r.value == value
    { SpannedExpr { span: Span::new(start, end), value } }
}
