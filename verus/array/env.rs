// Environment for the array unit (vm/src/primitives.rs array::slice): the argument validation in front of the allocation.
pub enum RuntimeResult<T, E> { Return(T), Panic(E) }
#[verifier::external_body] pub struct VmError { _p: () }
#[verifier::external_body] pub struct ArrayRef { _p: () }
impl ArrayRef {
    pub uninterp spec fn spec_len(&self) -> usize;
    #[verifier::external_body]
    pub fn len(&self) -> (r: usize) ensures r == self.spec_len() { unimplemented!() }
}
// R-err: Error::Message(format!(..))
#[verifier::external_body] pub fn msg_start_after_end(start: usize, end: usize) -> VmError { unimplemented!() }
#[verifier::external_body] pub fn msg_out_of_range(end: usize, len: usize) -> VmError { unimplemented!() }
// marker returned when the validation lets the call through to the allocation `Slice { start, end, array }`,
// whose size is computed as `self.end - self.start` and which copies `array.iter().skip(start).take(end - start)`
pub struct Validated { pub start: usize, pub end: usize }
