// Environment for the array unit (vm/src/primitives.rs array::slice): the argument validation in front of the allocation.
pub enum RuntimeResult<T, E> { Return(T), Panic(E) }
#[verifier::external_body] pub struct VmError { _p: () }
#[verifier::external_body] pub struct ArrayRef { _p: () }
impl ArrayRef {
    pub uninterp spec fn spec_len(&self) -> usize;
    #[verifier::external_body]
    pub fn len(&self) -> (r: usize) ensures r == self.spec_len() { unimplemented!() }
}
// R-err: Error::Message(format!(..))
#[verifier::external_body] pub fn msg_start_after_end(start: usize, end: usize) -> VmError { unimplemented!() }
#[verifier::external_body] pub fn msg_out_of_range(end: usize, len: usize) -> VmError { unimplemented!() }
// marker returned when the validation lets the call through to the allocation `Slice { start, end, array }`,
// whose size is computed as `self.end - self.start` and which copies `array.iter().skip(start).take(end - start)`
pub struct Validated { pub start: usize, pub end: usize }

// ---- value.rs ValueArray::get: the bounds test in front of the unchecked element read
pub enum Repr { Byte, Int, Float, String, Array, Unknown, Userdata, Thread }
pub struct ValueArray { pub repr: Repr, pub elems: Ghost<Seq<int>> }
#[verifier::external_body] pub struct Elem { _p: () }        // one stored element (typed by the array's representation)
#[verifier::external_body] pub struct Payload { _p: () }     // its value, copied out
pub enum ValueRepr { Byte(Payload), Int(Payload), Float(Payload), String(Payload), Array(Payload), Userdata(Payload), Thread(Payload), Other(Payload) }
impl Elem {
    #[verifier::external_body] pub fn clone(&self) -> Payload { unimplemented!() }
    #[verifier::external_body] pub fn clone_unrooted(&self) -> Payload { unimplemented!() }
    // `unsafe_get::<Value>(i).clone_unrooted().0`: the representation inside a Value
    #[verifier::external_body] pub fn clone_unrooted_repr(&self) -> ValueRepr { unimplemented!() }
}
impl ValueArray {
    pub open spec fn spec_len(&self) -> nat { self.elems@.len() }
    #[verifier::external_body]
    pub fn len(&self) -> (r: usize) ensures r == self.spec_len() { unimplemented!() }
    // `unsafe fn unsafe_get<T>(&self, index) -> &T` = `&*self.array.as_ptr().add(index)`-style unchecked read: Rust's
    // obligation for calling it, stated as a precondition
    #[verifier::external_body]
    pub fn unsafe_get(&self, index: usize) -> (r: &Elem)
        requires index < self.spec_len()
    { unimplemented!() }
}
#[verifier::external_body] pub struct Value { _p: () }
impl Value {
    #[verifier::external_body] pub fn from(r: ValueRepr) -> Value { unimplemented!() }
}
pub struct Variants;
impl Variants {
    #[verifier::external_body] pub fn with_root(v: &Value, root: &ValueArray) -> Variants { unimplemented!() }
}

// ---- primitives.rs array::append: which element representation the appended array gets
impl Clone for Repr { fn clone(&self) -> (r: Repr) ensures r == *self { match self { Repr::Byte => Repr::Byte, Repr::Int => Repr::Int, Repr::Float => Repr::Float, Repr::String => Repr::String, Repr::Array => Repr::Array, Repr::Unknown => Repr::Unknown, Repr::Userdata => Repr::Userdata, Repr::Thread => Repr::Thread } } }
impl Copy for Repr {}
impl ValueArray {
    pub fn repr(&self) -> (r: Repr) ensures r == self.repr { self.repr }
}
pub struct Append<'b> { pub lhs: &'b ValueArray, pub rhs: &'b ValueArray }
