// Environment for the stack unit (vm/src/stack.rs).
pub type VmIndex = u32;

#[verifier::external_body]
pub struct Value { _p: () }
impl Value {
    // R-gc: copies the value representation without rooting; identity on the abstract value
    #[verifier::external_body]
    pub fn clone_unrooted(&self) -> (r: Value) ensures r == *self { unimplemented!() }
}

// value::Variants<'a>: a borrowed view of one Value
pub struct Variants<'a> { pub v: &'a Value }
impl<'a> Variants<'a> {
    #[verifier::external_body]
    pub fn new(v: &'a Value) -> (r: Variants<'a>) ensures r.v == v { unimplemented!() }
}

// stack::ClosureState { closure: GcPtr<ClosureData>, instruction_index }  -- closure pointer opaque
#[verifier::external_body]
pub struct ClosurePtr { _p: () }
pub struct ClosureState { pub closure: ClosurePtr, pub instruction_index: usize }
// stack::ExternState { function, call_state, locked } -- function/call_state opaque
#[verifier::external_body]
pub struct ExternFn { _p: () }
pub struct ExternState { pub function: ExternFn, pub locked: Option<VmIndex> }
impl ExternState {
    // body of the real ExternState::is_locked is `self.locked.is_some()` (one-liner, assumed)
    #[verifier::external_body]
    pub fn is_locked(&self) -> (r: bool) ensures r == self.locked.is_some() { unimplemented!() }
}
pub enum State { Unknown, Closure(ClosureState), Extern(ExternState) }

// StackState::max_stack_size: for closures the compiled function's static bound, else 0.
pub uninterp spec fn max_stack_size_of(s: State) -> VmIndex;
impl State {
    #[verifier::external_body]
    pub fn max_stack_size(&self) -> (r: VmIndex) ensures r == max_stack_size_of(*self) { unimplemented!() }
    // R-gc: copy_unrooted bit-copy
    #[verifier::external_body]
    pub fn clone_unrooted(&self) -> (r: State) ensures r == *self { unimplemented!() }
}

pub struct Frame { pub offset: VmIndex, pub state: State, pub excess: bool }
impl Frame {
    #[verifier::external_body]
    pub fn clone_unrooted(&self) -> (r: Frame) ensures r == *self { unimplemented!() }
}

pub struct Stack { pub values: Vec<Value>, pub frames: Vec<Frame>, pub max_stack_size: VmIndex }

// The real StackFrame<'b, S> holds `stack: &'b mut Stack` (an exclusive borrow for its whole life) and a
// copy of the top frame; here the exclusive borrow is represented by ownership, the generic state S by State.
pub struct StackFrame { pub stack: Stack, pub frame: Frame }

pub enum Error { StackOverflow(VmIndex), Other }

// every Rust panic site (assert!, expect, unwrap on None, ice!) becomes a call of this: reaching it is a proof failure
#[verifier::external_body]
pub fn rt_panic() -> !
    requires false
{ panic!() }

// R-slice: Vec::drain(a..b) dropped immediately == remove the range  (std semantics, assumed)
#[verifier::external_body]
pub fn vec_drain_range(v: &mut Vec<Value>, from: usize, to: usize)
    requires from <= to <= old(v)@.len()
    ensures final(v)@ == old(v)@.subrange(0, from as int) + old(v)@.subrange(to as int, old(v)@.len() as int)
{ v.drain(from..to); }

// R-slice: Vec::splice(i..i, values.iter().map(clone_unrooted)) == insert the slice at i  (std semantics, assumed)
#[verifier::external_body]
pub fn vec_insert_slice(v: &mut Vec<Value>, index: usize, values: &[Value])
    requires index <= old(v)@.len()
    ensures final(v)@ == old(v)@.subrange(0, index as int) + values@ + old(v)@.subrange(index as int, old(v)@.len() as int)
{ unimplemented!() }

pub open spec fn locked_args(f: Frame) -> int {
    match f.state {
        State::Extern(ExternState { locked: Some(a), .. }) => a as int,
        _ => 0,
    }
}

impl Stack {
    // type invariant: the value vector is indexable by VmIndex
    pub open spec fn wf(&self) -> bool { self.values@.len() <= u32::MAX }
    // the current (top) frame owns the top `count` values: they are above its offset and above its locked arguments
    pub open spec fn owns(&self, count: int) -> bool {
        self.frames@.len() > 0
        && self.values@.len() >= self.frames@.last().offset + count + locked_args(self.frames@.last())
    }
}

impl StackFrame {
    // invariant kept by every constructor of StackFrame: the cached frame is the top frame of the stack
    pub open spec fn wf(&self) -> bool {
        self.stack.wf() && self.stack.values@.len() >= self.frame.offset
    }
    pub open spec fn owns(&self, count: int) -> bool {
        self.stack.values@.len() - self.frame.offset >= count + locked_args(self.frame)
    }
    pub open spec fn view(&self) -> Seq<Value> {
        self.stack.values@.subrange(self.frame.offset as int, self.stack.values@.len() as int)
    }
}

pub open spec fn locked_args_is_some(f: Frame) -> bool {
    match f.state {
        State::Extern(ext) => ext.locked.is_some(),
        _ => false,
    }
}

// ---- thread.rs reset_stack helpers
#[verifier::external_body]
pub struct Stacktrace { _p: () }
impl Stack {
    // diagnostic only
    #[verifier::external_body]
    pub fn stacktrace(&self, frame_level: usize) -> Stacktrace { unimplemented!() }
    // real body: `&self.frames`
    #[verifier::external_body]
    pub fn get_frames(&self) -> (r: &Vec<Frame>) ensures r@ == self.frames@ { unimplemented!() }
}
impl StackFrame {
    // real body: `&self.stack`
    #[verifier::external_body]
    pub fn stack(&self) -> (r: &Stack) ensures *r == self.stack { unimplemented!() }
}
// R-err: `format!("Attempted to exit scope above current").into()`
#[verifier::external_body]
pub fn err_exit_scope_above_current() -> Error { unimplemented!() }

// ---- interpreter arms (thread.rs execute_): the context as far as the extracted arms use it
pub type VmInt = i64;
#[verifier::external_body] pub struct F64 { _p: () }
#[verifier::external_body] pub struct EqFloat { _p: () }
impl EqFloat {
    // `f.into()`: EqFloat -> f64
    #[verifier::external_body]
    pub fn into(self) -> F64 { unimplemented!() }
}
// the scalar part of value.rs ValueRepr that the push arms construct
pub enum ValueRepr { Int(VmInt), Byte(u8), Float(F64) }
use ValueRepr::{Int, Float};
// injection ValueRepr -> Value (Value is a transparent wrapper of ValueRepr)
pub uninterp spec fn repr_value(r: ValueRepr) -> Value;

impl StackFrame {
    // StackFrame::push<T: StackPrimitive>(v) = v.push_to(&mut self.stack); every StackPrimitive impl ends in
    // `stack.values.push(value.clone_unrooted())` (Value's impl, stack.rs) -- ASSUMED for the ValueRepr instance
    #[verifier::external_body]
    pub fn push(&mut self, v: ValueRepr)
        ensures final(self).stack.values@ == old(self).stack.values@.push(repr_value(v)),
                final(self).stack.frames@ == old(self).stack.frames@, final(self).frame == old(self).frame,
                final(self).stack.max_stack_size == old(self).stack.max_stack_size,
    { unimplemented!() }
}
pub struct ExecuteContext { pub stack: StackFrame }

// ---- Construct* arms: what an allocated data value is, abstractly
pub type VmTag = u32;
pub uninterp spec fn tag_value(tag: VmTag) -> Value;                          // Value::tag(tag): a field-less variant
pub uninterp spec fn data_value(tag: VmTag, fields: Seq<Value>) -> Value;     // a heap data value with these fields, in this order
#[verifier::external_body] pub struct DataRef { _p: () }                      // GcRef<DataStruct>
pub uninterp spec fn dataref_value(d: DataRef) -> Value;
impl<'a> Variants<'a> {
    #[verifier::external_body]
    pub fn tag(tag: VmTag) -> (r: Variants<'static>) ensures *r.v == tag_value(tag) { unimplemented!() }
    #[verifier::external_body]
    pub fn from(d: DataRef) -> (r: Variants<'static>) ensures *r.v == dataref_value(d) { unimplemented!() }
}
// `alloc(&mut self.gc, self.thread, &self.stack.stack(), Def { tag, elems: fields })`: allocates a variant whose fields are
// copies of `elems` in order, possibly collecting first (roots: the stack) -- ASSUMED; fails with an error value on OOM
#[verifier::external_body]
pub fn alloc_def(tag: VmTag, elems: &[Value]) -> (r: Result<DataRef, Error>)
    ensures r is Ok ==> dataref_value(r->Ok_0) == data_value(tag, elems@)
{ unimplemented!() }
impl StackFrame {
    // push of a Variants (see `push` above)
    #[verifier::external_body]
    pub fn push_variants(&mut self, v: Variants<'_>)
        ensures final(self).stack.values@ == old(self).stack.values@.push(*v.v),
                final(self).stack.frames@ == old(self).stack.frames@, final(self).frame == old(self).frame,
                final(self).stack.max_stack_size == old(self).stack.max_stack_size,
    { unimplemented!() }
}

// ---- ConstructArray / MakeClosure arms
pub uninterp spec fn array_value(elems: Seq<Value>) -> Value;                 // an array whose elements are these, in order
pub uninterp spec fn closure_value(function_index: VmIndex, upvars: Seq<Value>) -> Value;
// `alloc(.., ArrayDef(fields))` / `alloc(.., ClosureDataDef(func, args.iter()))` (ASSUMED like alloc_def)
#[verifier::external_body]
pub fn alloc_array(elems: &[Value]) -> (r: Result<DataRef, Error>)
    ensures r is Ok ==> dataref_value(r->Ok_0) == array_value(elems@)
{ unimplemented!() }
#[verifier::external_body]
pub fn alloc_closure(function_index: VmIndex, upvars: &[Value]) -> (r: Result<DataRef, Error>)
    ensures r is Ok ==> dataref_value(r->Ok_0) == closure_value(function_index, upvars@)
{ unimplemented!() }

// ---- call protocol (thread.rs call_function_with_upvars): partial application and excess arguments
#[verifier::external_body] pub struct Callable { _p: () }
pub uninterp spec fn papp_value(callable: Callable, args: Seq<Value>) -> Value;   // a partial application holding these arguments, in order
#[verifier::external_body]
pub fn alloc_papp(callable: &Callable, fields: &[Value]) -> (r: Result<DataRef, Error>)
    ensures r is Ok ==> dataref_value(r->Ok_0) == papp_value(*callable, fields@)
{ unimplemented!() }
// `slice::from_ref(Variants::from(d).get_value())`: the one-element slice holding the freshly allocated value
#[verifier::external_body]
pub fn one_value_slice(d: DataRef) -> (r: &'static [Value])
    ensures r@ == seq![dataref_value(d)]
{ unimplemented!() }
pub enum CmpOrdering { Less, Equal, Greater }
// `args.cmp(&required_args)` on u32 (core, ASSUMED to be the integer order)
#[verifier::external_body]
pub fn u32_cmp(a: VmIndex, b: VmIndex) -> (r: CmpOrdering)
    ensures (r is Less) == (a < b), (r is Equal) == (a == b), (r is Greater) == (a > b)
{ unimplemented!() }
// what the protocol hands back: the context, and -- if the callee's scope is entered -- the `excess` flag it was entered with
pub struct CallOutcome { pub ctx: ExecuteContext, pub entered: Option<bool> }
// the `enter_scope` continuation (enter_closure / enter_extern): opaque; only what it is called with is recorded
#[verifier::external_body]
pub fn enter_scope_cb(ctx: ExecuteContext, excess: bool) -> (r: Result<CallOutcome, Error>)
    ensures r is Ok ==> r->Ok_0.ctx == ctx && r->Ok_0.entered == Some(excess)
{ unimplemented!() }
impl ExecuteContext {
    // self.to_state(): forgets the static frame type, identity here
    #[verifier::external_body]
    pub fn to_state(self) -> (r: CallOutcome) ensures r.ctx == self && r.entered is None { unimplemented!() }
}

pub uninterp spec fn spec_callable_args(c: Callable) -> VmIndex;
// ---- do_call, PartialApplication arm: the stored arguments are spliced in below the new ones
pub struct PartialApplicationData { pub function: Callable, pub args: Vec<Value> }
impl Callable {
    // Callable::args(): number of parameters of the underlying closure / extern function
    #[verifier::external_body]
    pub fn args(&self) -> (r: VmIndex) ensures r == spec_callable_args(*self) { unimplemented!() }
}

// ---- function return (thread.rs execute_ after the instruction loop) and ExecuteContext::exit_scope
impl StackFrame {
    // StackFrame::current(stack) = stack.current_frame(): a StackFrame caching the top frame; `.expect("Frame")` on an empty frame list
    #[verifier::external_body]
    pub fn current(stack: Stack) -> (r: StackFrame)
        requires stack.frames@.len() > 0
        ensures r.stack == stack, r.frame == stack.frames@.last()
    { unimplemented!() }
    // `self.stack.frame()`: the cached frame
    #[verifier::external_body]
    pub fn frame(&self) -> (r: &Frame) ensures *r == self.frame { unimplemented!() }
    // `context.stack.extend(&excess.fields)`: pushes the values in order (StackPrimitive::extend_to)
    #[verifier::external_body]
    pub fn extend(&mut self, vs: &Vec<Value>)
        ensures final(self).stack.values@ == old(self).stack.values@ + vs@,
                final(self).stack.frames@ == old(self).stack.frames@, final(self).frame == old(self).frame,
                final(self).stack.max_stack_size == old(self).stack.max_stack_size,
    { unimplemented!() }
}
// the excess-argument record parked below the function by the call protocol: data_value(0, fields)
pub struct ExcessData { pub fields: Vec<Value> }
pub uninterp spec fn is_data0(v: Value) -> bool;             // v is a (tag 0) data value
pub uninterp spec fn data_fields(v: Value) -> Seq<Value>;    // its fields
// what the call protocol parks is such a value (data_value is a constructor: ASSUMED injective on its fields)
#[verifier::external_body]
pub proof fn axiom_data_value_fields(fs: Seq<Value>)
    ensures is_data0(data_value(0, fs)), data_fields(data_value(0, fs)) == fs
{}
pub enum ReprView { Data(ExcessData), Other }
// `transfer!(context, &context.stack[i]).get_repr()`: looks at the value in frame slot i
#[verifier::external_body]
pub fn frame_slot_repr(sf: &StackFrame, i: VmIndex) -> (r: ReprView)
    requires sf.wf(), i < sf@.len()
    ensures r is Data == is_data0(sf@[i as int]), r is Data ==> r->Data_0.fields@ == data_fields(sf@[i as int]),
{ unimplemented!() }
// the continuation `context.do_call(n)`: opaque
pub struct ReturnOutcome { pub ctx: ExecuteContext, pub calls_excess: Option<VmIndex>, pub stack_exists: bool }

// ---- TailCall arm
impl StackFrame {
    // StackFrame::excess_args(): the record parked directly below the function slot of this frame, if it is a data value
    // (real body: `match self.stack.values[len - self.len() - 2].get_repr() { Data(d) => Some(d), _ => None }`)
    #[verifier::external_body]
    pub fn excess_args(&self) -> (r: Option<ExcessData>)
        requires self.wf(), self.frame.offset >= 2
        ensures r is Some == is_data0(self.stack.values@[self.frame.offset - 2]),
                r is Some ==> r->Some_0.fields@ == data_fields(self.stack.values@[self.frame.offset - 2]),
    { unimplemented!() }
}
pub struct TailOutcome { pub ctx: ExecuteContext, pub calls: VmIndex }

// ---- GetOffset arm
pub struct DataView { pub fields: Vec<Value> }
pub enum PoppedRepr { Data(DataView), Tag(VmTag), Other }
pub uninterp spec fn is_tag(v: Value) -> bool;              // a field-less variant (ValueRepr::Tag)
pub uninterp spec fn is_data(v: Value) -> bool;             // any data value (record / variant with fields)
pub uninterp spec fn fields_of(v: Value) -> Seq<Value>;
impl Value {
    // `.get_repr()` on a popped value, looked at only as "data with these fields" or "something else"
    #[verifier::external_body]
    pub fn get_repr(&self) -> (r: PoppedRepr)
        ensures r is Data == is_data(*self), r is Data ==> r->Data_0.fields@ == fields_of(*self),
                r is Tag == is_tag(*self), !(is_data(*self) && is_tag(*self)),
    { unimplemented!() }
}
impl StackFrame {
    // push of a borrowed Value (StackPrimitive for &Value: copies it)
    #[verifier::external_body]
    pub fn push_ref(&mut self, v: &Value)
        ensures final(self).stack.values@ == old(self).stack.values@.push(*v),
                final(self).stack.frames@ == old(self).stack.frames@, final(self).frame == old(self).frame,
                final(self).stack.max_stack_size == old(self).stack.max_stack_size,
    { unimplemented!() }
}

// ---- Push(i): variable access by frame slot
// slice::get (core): Some(&s[i]) iff i < len  (ASSUMED)
#[verifier::external_body]
pub fn slice_get(s: &[Value], i: usize) -> (r: Option<&Value>)
    ensures r is Some == (i < s@.len()), r is Some ==> *r->Some_0 == s@[i as int]
{ unimplemented!() }
// R-err: the internal-error value of the out-of-bounds branch
#[verifier::external_body]
pub fn err_push_out_of_bounds() -> Error { unimplemented!() }

// ---- binop (thread.rs): the shared skeleton of all 18 arithmetic / comparison instructions
#[verifier::external_body] pub struct ThreadRef { _p: () }
// an operand decoded from a stack value by Getable::from_value (Int -> i64, Byte -> u8, Float -> f64): opaque here
#[verifier::external_body] pub struct Operand { _p: () }
pub uninterp spec fn decode(v: Value) -> Operand;
#[verifier::external_body] pub struct OpResult { _p: () }          // the ValueRepr the operation produces
pub uninterp spec fn result_value(r: OpResult) -> Value;
impl OpResult {
    // `result.into()`: ValueRepr -> Value
    #[verifier::external_body]
    pub fn into(self) -> (v: Value) ensures v == result_value(self) { unimplemented!() }
}
impl StackFrame {
    // StackFrame::get_value(vm, i) = get_variant(i).map(|v| T::from_value(vm, v)) -- get_variant is verified above
    #[verifier::external_body]
    pub fn get_value(&self, vm: &ThreadRef, index: VmIndex) -> (r: Option<Operand>)
        requires self.wf(), self.frame.offset + index <= u32::MAX
        ensures r is Some == (index < self@.len()), r is Some ==> r->Some_0 == decode(self@[index as int])
    { unimplemented!() }
    // `*stack.last_mut().unwrap() = v` through DerefMut: overwrite the top slot of the frame (panics on an empty frame)
    #[verifier::external_body]
    pub fn set_last(&mut self, v: Value)
        requires old(self).wf(), old(self)@.len() >= 1
        ensures final(self).stack.values@ == old(self).stack.values@.drop_last().push(v),
                final(self).stack.frames@ == old(self).stack.frames@, final(self).frame == old(self).frame,
                final(self).stack.max_stack_size == old(self).stack.max_stack_size,
    { unimplemented!() }
}

// ---- binop_int: None (overflow / division by zero) becomes the runtime failure "Arithmetic overflow"
pub uninterp spec fn int_result(x: VmInt) -> OpResult;     // ValueRepr::Int(x)
#[verifier::external_body]
pub fn mk_int_result(x: VmInt) -> (r: OpResult) ensures r == int_result(x) { unimplemented!() }
#[verifier::external_body]
pub fn err_arithmetic_overflow() -> Error { unimplemented!() }
pub uninterp spec fn byte_result(x: u8) -> OpResult;       // ValueRepr::Byte(x)
#[verifier::external_body]
pub fn mk_byte_result(x: u8) -> (r: OpResult) ensures r == byte_result(x) { unimplemented!() }
pub uninterp spec fn tag_result(t: VmTag) -> OpResult;     // ValueRepr::Tag(t): Bool is the variant type False = 0 | True = 1
#[verifier::external_body]
pub fn mk_tag_result(t: VmTag) -> (r: OpResult) ensures r == tag_result(t) { unimplemented!() }

// ---- ConstructRecord arm
pub uninterp spec fn record_value(record: VmIndex, fields: Seq<Value>) -> Value;   // a record with field-name list #record and these values, in order
#[verifier::external_body]
pub fn alloc_record(record: VmIndex, elems: &[Value]) -> (r: Result<DataRef, Error>)
    ensures r is Ok ==> dataref_value(r->Ok_0) == record_value(record, elems@)
{ unimplemented!() }

// ---- the instruction being dispatched, for arm groups (same variants as vm/src/types.rs::Instruction, checked by name)
pub enum Instruction {
    PushInt(VmInt), PushByte(u8), PushFloat(EqFloat), PushString(VmIndex), PushUpVar(VmIndex), Push(VmIndex),
    Call(VmIndex), TailCall(VmIndex),
    ConstructVariant { tag: VmIndex, args: VmIndex }, ConstructPolyVariant { tag: VmIndex, args: VmIndex },
    NewVariant { tag: VmIndex, args: VmIndex }, NewRecord { record: VmIndex, args: VmIndex },
    CloseData { index: VmIndex }, ConstructRecord { record: VmIndex, args: VmIndex }, ConstructArray(VmIndex),
    GetOffset(VmIndex), GetField(VmIndex), Split, TestTag(VmTag), TestPolyTag(VmIndex),
    Jump(VmIndex), CJump(VmIndex), Pop(VmIndex), Slide(VmIndex),
    MakeClosure { function_index: VmIndex, upvars: VmIndex }, NewClosure { function_index: VmIndex, upvars: VmIndex },
    CloseClosure(VmIndex),
    AddInt, SubtractInt, MultiplyInt, DivideInt, IntLT, IntEQ,
    AddByte, SubtractByte, MultiplyByte, DivideByte, ByteLT, ByteEQ,
    AddFloat, SubtractFloat, MultiplyFloat, DivideFloat, FloatLT, FloatEQ,
    Return,
}
use Instruction::TailCall;
impl StackFrame {
    // StackFrame<ClosureState>::set_instruction_index: records the resume point in the cached and the stored top frame; values untouched
    #[verifier::external_body]
    pub fn set_instruction_index(&mut self, instruction_index: usize)
        ensures final(self).stack.values@ == old(self).stack.values@, final(self).stack.frames@.len() == old(self).stack.frames@.len(),
                final(self).stack.max_stack_size == old(self).stack.max_stack_size
    { unimplemented!() }
}
