// Environment for the modload unit: the call site in src/query.rs (global_inner) where the top-level expression of a
// module (load_script / import!) is EVALUATED.
#[verifier::external_body] pub struct Closure { _p: () }
#[verifier::external_body] pub struct RootedValue { _p: () }
#[verifier::external_body] pub struct VmError { _p: () }
// vm::Thread projected on the frame list of its VM stack (ghost view).  R-sig: the receiver is `&Thread` in the source (the
// stack sits behind the context lock); it is `&mut` here so that the contracts can speak about the frames
#[verifier::external_body] pub struct Thread { _p: () }
impl Thread {
    pub uninterp spec fn frames(&self) -> Seq<int>;
    // vm/src/thread.rs ThreadInternal::call_thunk_top = call_thunk + "on error, pop the frames the evaluation pushed".
    // ASSUMED here; its error closure is PROVED in the toplevel unit (obligation C06/thread/call_thunk_top_on_error)
    #[verifier::external_body]
    pub fn call_thunk_top(&mut self, closure: &Closure) -> (r: Result<RootedValue, VmError>)
        ensures r is Err ==> final(self).frames() == old(self).frames()
    { unimplemented!() }
    // ThreadInternal::call_thunk: the evaluation alone.  When it fails the frames of the failed calls are still on the
    // stack (they are what the stack trace is built from): no guarantee about frames()
    #[verifier::external_body]
    pub fn call_thunk(&mut self, closure: &Closure) -> (r: Result<RootedValue, VmError>)
    { unimplemented!() }
}
