// Environment for the infix unit (parser/src/infix.rs): the shift/reduce step of `reparse`.
pub enum Fixity { Left, Right }
impl Clone for Fixity { fn clone(&self) -> (r: Fixity) ensures r == *self { match self { Fixity::Left => Fixity::Left, Fixity::Right => Fixity::Right } } }
impl Copy for Fixity {}
pub struct OpMeta { pub precedence: i32, pub fixity: Fixity }
impl Clone for OpMeta { fn clone(&self) -> (r: OpMeta) ensures r == *self { OpMeta { precedence: self.precedence, fixity: self.fixity } } }
impl Copy for OpMeta {}
pub enum Ordering { Less, Equal, Greater }
// `i32::cmp(&a, &b)` (core, ASSUMED to be the order of the integers)
#[verifier::external_body]
pub fn i32_cmp(a: &i32, b: &i32) -> (r: Ordering)
    ensures (r is Less) == (*a < *b), (r is Equal) == (*a == *b), (r is Greater) == (*a > *b)
{ unimplemented!() }

// expression trees and operator occurrences are opaque; `make_op` is the (uninterpreted) node constructor closure
#[verifier::external_body] pub struct Tree { _p: () }
#[verifier::external_body] pub struct Op { _p: () }     // SpannedIdent<Id>
pub uninterp spec fn node(lhs: Tree, op: Op, rhs: Tree) -> Tree;
#[verifier::external_body]
pub fn make_op(lhs: Tree, op: Op, rhs: Tree) -> (r: Tree) ensures r == node(lhs, op, rhs) { unimplemented!() }

// Infixes { remaining_expr, next_op }: only `next_op` (the one-operator push-back slot) is touched by the step
pub struct Infixes { pub next_op: Option<Op> }

// error construction (names, span and payload are not inspected)
#[verifier::external_body] pub struct SpannedError { _p: () }
pub uninterp spec fn is_conflict(e: SpannedError, stack_op: Op, stack_meta: OpMeta, next_op: Op, next_meta: OpMeta) -> bool;
#[verifier::external_body]
pub fn conflicting_fixities(stack_op: &Op, stack_op_meta: OpMeta, next_op: &Op, next_op_meta: OpMeta) -> (r: SpannedError)
    ensures is_conflict(r, *stack_op, stack_op_meta, *next_op, next_op_meta)
{ unimplemented!() }
pub struct NoExpr;

// ---- OpTable { operators: FnvMap<Id, OpMeta> }: the user-declared fixities as a ghost map; lookups ASSUMED to be map lookups
#[verifier::external_body] pub struct Id { _p: () }
#[verifier::external_body] pub struct FnvMap { _p: () }
impl FnvMap {
    pub uninterp spec fn view(&self) -> Map<Id, OpMeta>;
    #[verifier::external_body]
    pub fn get(&self, k: &Id) -> (r: Option<&OpMeta>)
        ensures r is Some == self@.contains_key(*k), r is Some ==> *r->Some_0 == self@[*k]
    { unimplemented!() }
}
pub struct OpTable { pub operators: FnvMap }
// The closure body of `or_else` in OpTable::get (the built-in table for `#`-prefixed names, `&&` and `||`): its content is
// verified on the compiled code by the Kani harnesses C08/builtin_ops/* (empty user table); here only its role matters.
pub uninterp spec fn builtin_fixity(name: Id) -> Option<OpMeta>;
#[verifier::external_body]
pub fn builtin_fixity_lookup(name: &Id) -> (r: Option<&'static OpMeta>)
    ensures r is Some == builtin_fixity(*name) is Some, r is Some ==> *r->Some_0 == builtin_fixity(*name)->Some_0
{ unimplemented!() }

// ---- the final fold of reparse: operators still waiting on the stack when the input is exhausted
// THE SPECIFICATION: pending operators have strictly increasing precedence (or are right-associative at one level), so
// they group to the RIGHT, in order, over all operands: a0 op0 (a1 op1 (... (a_{n-1} op_{n-1} a_n)))
pub open spec fn nest(args: Seq<Tree>, ops: Seq<Op>, i: int) -> Tree
    decreases ops.len() - i
{
    if i >= ops.len() || i < 0 { args[i] } else { node(args[i], ops[i], nest(args, ops, i + 1)) }
}
// merging the two topmost operands with the topmost operator does not change the nesting
pub proof fn lemma_merge_top(args: Seq<Tree>, ops: Seq<Op>, i: int)
    requires args.len() == ops.len() + 1, ops.len() >= 1, 0 <= i <= ops.len() - 1,
    ensures nest(args, ops, i) == nest(
        args.subrange(0, args.len() - 2).push(node(args[args.len() - 2], ops.last(), args[args.len() - 1])),
        ops.drop_last(), i),
    decreases ops.len() - i
{
    let n = args.len() as int;
    let args2 = args.subrange(0, n - 2).push(node(args[n - 2], ops.last(), args[n - 1]));
    let ops2 = ops.drop_last();
    if i == ops.len() - 1 {
        assert(nest(args, ops, i + 1) == args[i + 1]);
        assert(nest(args, ops, i) == node(args[i], ops[i], args[i + 1]));
        assert(nest(args2, ops2, i) == args2[i]);
    } else {
        lemma_merge_top(args, ops, i + 1);
        assert(args2[i] == args[i]);
        assert(ops2[i] == ops[i]);
    }
}
#[verifier::external_body]
pub fn rt_panic() -> !
    requires false
{ unimplemented!() }
