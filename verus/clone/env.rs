// Environment for the clone unit: gc.rs Generation, value.rs Value::generation / Cloner, thread.rs deep_clone_value.
pub type VmInt = i64;
pub type VmTag = u32;

pub struct Generation(pub i32);
impl Clone for Generation { fn clone(&self) -> (r: Generation) ensures r == *self { Generation(self.0) } }
impl Copy for Generation {}
// real: #[derive(Default)] on Generation(i32)
impl Generation {
    pub fn default() -> (r: Generation) ensures r.0 == 0 { Generation(0) }
}

// GcPtr<T>: opaque; every heap object has the generation of the heap that allocated it
#[verifier::external_body]
#[verifier::reject_recursive_types(T)]
pub struct GcPtr<T> { _p: core::marker::PhantomData<T> }
pub uninterp spec fn ptr_gen<T>(p: GcPtr<T>) -> Generation;
// "allocated by the receiving cloner's collector during this clone": what every deep_clone_* / gc.alloc callee returns
pub uninterp spec fn fresh<T>(p: GcPtr<T>) -> bool;
impl<T> GcPtr<T> {
    #[verifier::external_body]
    pub fn generation(&self) -> (r: Generation) ensures r == ptr_gen(*self) { unimplemented!() }
    // R-gc: copies the pointer (the SAME object), rooting not modelled
    #[verifier::external_body]
    pub fn clone_unrooted(&self) -> (r: GcPtr<T>) ensures r == *self { unimplemented!() }
}
#[verifier::external_body] pub struct StrData { _p: () }
pub type GcStr = GcPtr<StrData>;
#[verifier::external_body] pub struct DataStruct { _p: () }
#[verifier::external_body] pub struct ValueArray { _p: () }
#[verifier::external_body] pub struct ExternFunction { _p: () }
#[verifier::external_body] pub struct ClosureData { _p: () }
#[verifier::external_body] pub struct PartialApplicationData { _p: () }
#[verifier::external_body] pub struct UserdataBox { _p: () }   // Box<dyn Userdata>
#[verifier::external_body] pub struct ThreadData { _p: () }
#[verifier::external_body] pub struct F64 { _p: () }           // f64 payload, never inspected
impl Clone for F64 { #[verifier::external_body] fn clone(&self) -> (r: F64) ensures r == *self { unimplemented!() } }
impl Copy for F64 {}

// value.rs ValueRepr: same variants, same payload kinds (variant names checked every run)
pub enum ValueRepr {
    Byte(u8), Int(VmInt), Float(F64), String(GcStr), Tag(VmTag),
    Data(GcPtr<DataStruct>), Array(GcPtr<ValueArray>), Function(GcPtr<ExternFunction>), Closure(GcPtr<ClosureData>),
    PartialApplication(GcPtr<PartialApplicationData>), Userdata(GcPtr<UserdataBox>), Thread(GcPtr<ThreadData>),
}
use ValueRepr::{Closure, Float, Function, Int, PartialApplication, String};
pub struct Value(pub ValueRepr);

impl Value {
    // real body: `&self.0`
    #[verifier::external_body]
    pub fn get_repr(&self) -> (r: &ValueRepr) ensures *r == self.0 { unimplemented!() }
    // R-gc: bit copy of the value representation
    #[verifier::external_body]
    pub fn clone_unrooted(&self) -> (r: Value) ensures r == *self { unimplemented!() }
    // impl From<ValueRepr> for Value
    #[verifier::external_body]
    pub fn from(r: ValueRepr) -> (v: Value) ensures v.0 == r { unimplemented!() }
}

pub open spec fn is_heap(v: ValueRepr) -> bool {
    !(v is Byte || v is Int || v is Float || v is Tag)
}
// the heap a value lives in (scalars live nowhere: the root generation by convention of Value::generation)
pub open spec fn value_gen(v: ValueRepr) -> Generation {
    match v {
        ValueRepr::String(p) => ptr_gen(p), ValueRepr::Data(p) => ptr_gen(p), ValueRepr::Array(p) => ptr_gen(p),
        ValueRepr::Function(p) => ptr_gen(p), ValueRepr::Closure(p) => ptr_gen(p), ValueRepr::PartialApplication(p) => ptr_gen(p),
        ValueRepr::Userdata(p) => ptr_gen(p), ValueRepr::Thread(p) => ptr_gen(p),
        _ => Generation(0),
    }
}
pub open spec fn fresh_value(v: ValueRepr) -> bool {
    match v {
        ValueRepr::String(p) => fresh(p), ValueRepr::Data(p) => fresh(p), ValueRepr::Array(p) => fresh(p),
        ValueRepr::Function(p) => fresh(p), ValueRepr::Closure(p) => fresh(p), ValueRepr::PartialApplication(p) => fresh(p),
        ValueRepr::Userdata(p) => fresh(p), ValueRepr::Thread(p) => fresh(p),
        _ => false,
    }
}

pub enum Error { Message(ErrMsg), Other }
#[verifier::external_body] pub struct ErrMsg { _p: () }
// R-err: `"...".into()`
#[verifier::external_body]
pub fn err_msg(s: &str) -> ErrMsg { unimplemented!() }

#[verifier::external_body] pub struct Gc { _p: () }
pub uninterp spec fn gc_gen(g: Gc) -> Generation;
pub uninterp spec fn gc_limit(g: Gc) -> usize;               // the `memory_limit` field
impl Gc {
    #[verifier::external_body]
    pub fn generation(&self) -> (r: Generation) ensures r == gc_gen(*self) { unimplemented!() }
    // gc.alloc(Move(ExternFunction::clone(&f))).map(|v| v.unrooted()): a new object in this collector (ASSUMED)
    #[verifier::external_body]
    pub fn alloc_extern_clone(&mut self, f: &GcPtr<ExternFunction>) -> (r: Result<GcPtr<ExternFunction>, Error>)
        ensures r is Ok ==> fresh(r->Ok_0), gc_gen(*final(self)) == gc_gen(*old(self))
    { unimplemented!() }
}

// ---- the thread tree (vm/src/thread.rs Thread { parent: Option<GcPtr<Thread>>, global_state: Arc<GlobalVmState>, context: Mutex<Context> })
// Threads are compared by address; the ghost id stands for the address.
#[verifier::external_body] pub struct Thread { _p: () }
pub type ThreadRef = Thread;
pub uninterp spec fn tid(t: Thread) -> int;
pub uninterp spec fn global_id(t: Thread) -> int;            // address of the shared GlobalVmState
pub uninterp spec fn parent_of(t: Thread) -> Option<Thread>; // the `parent` field
pub uninterp spec fn depth(t: Thread) -> nat;                // distance from the root thread
pub uninterp spec fn gen_of(t: Thread) -> Generation;        // generation of the thread's own collector

// Structure of the tree as built by Thread::new_thread / Gc::new_child_gc (ASSUMED here, new_child_gc's part is
// verified below): a child is one level deeper than its parent, its collector one generation younger, and it
// shares the parent's global state.
#[verifier::external_body]
pub proof fn axiom_thread_tree(t: Thread)
    ensures
        gen_of(t).0 >= 0,
        parent_of(t) is Some ==> depth(t) == depth(parent_of(t)->Some_0) + 1
            && gen_of(t).0 == gen_of(parent_of(t)->Some_0).0 + 1
            && global_id(t) == global_id(parent_of(t)->Some_0),
{}

// a is a strict ancestor of b
pub open spec fn is_ancestor(a: Thread, b: Thread) -> bool
    decreases depth(b)
{
    match parent_of(b) {
        Some(p) => depth(p) < depth(b) && (tid(p) == tid(a) || is_ancestor(a, p)),
        None => false,
    }
}
// the threads may share heap values: same thread, or one is an ancestor of the other within one VM
pub open spec fn related(a: Thread, b: Thread) -> bool {
    tid(a) == tid(b) || (global_id(a) == global_id(b) && (is_ancestor(a, b) || is_ancestor(b, a)))
}

pub proof fn lemma_ancestor_is_older(a: Thread, b: Thread)
    requires is_ancestor(a, b)
    ensures gen_of(a).0 < gen_of(b).0 || tid(a) != tid(a),
    decreases depth(b)
{
    axiom_thread_tree(b);
    let p = parent_of(b)->Some_0;
    if tid(p) != tid(a) { lemma_ancestor_is_older(a, p); }
    else { axiom_same_tid_same_thread(p, a); }
}
// two references with the same address designate the same thread object
#[verifier::external_body]
pub proof fn axiom_same_tid_same_thread(a: Thread, b: Thread)
    requires tid(a) == tid(b)
    ensures a == b
{}

impl Thread {
    // `self as *const Thread == other as *const Thread`
    #[verifier::external_body]
    pub fn ptr_eq(&self, other: &Thread) -> (r: bool) ensures r == (tid(*self) == tid(*other)) { unimplemented!() }
    // `&*self.global_state as *const GlobalVmState != &*other.global_state as *const GlobalVmState`
    #[verifier::external_body]
    pub fn global_state_ptr_ne(&self, other: &Thread) -> (r: bool) ensures r == (global_id(*self) != global_id(*other)) { unimplemented!() }
    // `other.context.lock().unwrap().gc.generation()` (R-lock)
    #[verifier::external_body]
    pub fn locked_gc_generation(&self) -> (r: Generation) ensures r == gen_of(*self) { unimplemented!() }
    // the `parent` field read through `child.parent` / `&**next`
    #[verifier::external_body]
    pub fn parent(&self) -> (r: Option<&Thread>)
        ensures r is Some == parent_of(*self) is Some, r is Some ==> *r->Some_0 == parent_of(*self)->Some_0
    { unimplemented!() }
    // self.owned_context(): locks the thread's own context (R-lock); its gc is this thread's collector
    #[verifier::external_body]
    pub fn owned_context(&self) -> (r: OwnedContext) ensures gc_gen(r.gc) == gen_of(*self) { unimplemented!() }
    // root_value_with_self: roots the value in self (identity on the abstract value)
    #[verifier::external_body]
    pub fn root_value_with_self(&self, value: &Value) -> (r: RootedValue) ensures r.v == *value { unimplemented!() }
}
pub struct OwnedContext { pub gc: Gc }
pub struct RootedValue { pub v: Value }
pub struct Variants { pub v: Value }
impl Variants {
    // Variants::with_root(&v, gc): roots v for the lifetime of the gc borrow (identity on the abstract value)
    #[verifier::external_body]
    pub fn with_root(v: &Value) -> (r: Variants) ensures r.v == *v { unimplemented!() }
    #[verifier::external_body]
    pub fn get_value(&self) -> (r: &Value) ensures *r == self.v { unimplemented!() }
}

// value.rs Cloner { visited, thread, gc, receiver_generation }: visited map is opaque here (its sharing/cycle
// discipline is not under contract)
// `visited: FnvMap<*const (), ValueRepr>` as a ghost map from object address to the copy already made (lookups/inserts ASSUMED
// to be map operations)
#[verifier::external_body] pub struct VisitedMap { _p: () }
impl VisitedMap {
    pub uninterp spec fn view(&self) -> Map<int, ValueRepr>;
    #[verifier::external_body]
    pub fn new() -> (r: VisitedMap) ensures r@ == Map::<int, ValueRepr>::empty() { unimplemented!() }
    // Entry API desugared (R-map): entry(k) = Occupied(v) iff the key is present
    #[verifier::external_body]
    pub fn lookup(&self, k: usize) -> (r: Option<ValueRepr>)
        ensures r is Some == self@.contains_key(k as int), r is Some ==> r->Some_0 == self@[k as int]
    { unimplemented!() }
    #[verifier::external_body]
    pub fn insert(&mut self, k: usize, v: ValueRepr) ensures final(self)@ == old(self)@.insert(k as int, v) { unimplemented!() }
    #[verifier::external_body]
    pub fn clear(&mut self) ensures final(self)@ == Map::<int, ValueRepr>::empty() { unimplemented!() }
}
impl ValueRepr {
    #[verifier::external_body]
    pub fn clone_unrooted(&self) -> (r: ValueRepr) ensures r == *self { unimplemented!() }
}
// address of the OBJECT a GcPtr points to vs. address of the variable holding the pointer
pub uninterp spec fn addr_of_object<T>(p: GcPtr<T>) -> int;
#[verifier::external_body]
pub fn pointee_addr<T>(p: &GcPtr<T>) -> (r: usize) ensures r as int == addr_of_object(*p) { unimplemented!() }
#[verifier::external_body]
pub fn slot_addr<T>(p: &GcPtr<T>) -> (r: usize) { unimplemented!() }   // deliberately unrelated to the object
// the allocation closure passed to deep_clone_ptr: allocates the (not yet filled) copy; returns the value to remember and the new pointer
#[verifier::external_body]
pub fn alloc_cb<T, R>(gc: &mut Gc, value: &GcPtr<T>) -> (r: Result<(ValueRepr, R), Error>)
    ensures r is Ok ==> fresh_value(r->Ok_0.0), gc_gen(*final(gc)) == gc_gen(*old(gc))
{ unimplemented!() }

// nothing that was remembered is forgotten or changed
pub open spec fn visited_kept(old_m: Map<int, ValueRepr>, new_m: Map<int, ValueRepr>) -> bool {
    forall|k: int| #[trigger] old_m.contains_key(k) ==> new_m.contains_key(k) && new_m[k] == old_m[k]
}

pub struct Cloner<'gc> { pub visited: VisitedMap, pub thread: &'gc ThreadRef, pub gc: &'gc mut Gc, pub receiver_generation: Generation }

impl<'gc> Cloner<'gc> {
    // ASSUMED contracts of the per-representation clone helpers: on success the result is a new object in the
    // receiving heap; they do not change the share-or-copy policy (receiver_generation).
    #[verifier::external_body]
    pub fn deep_clone_str(&mut self, data: &GcStr) -> (r: Result<ValueRepr, Error>)
        ensures r is Ok ==> (r->Ok_0 is String && fresh_value(r->Ok_0)), final(self).receiver_generation == old(self).receiver_generation,
                visited_kept(old(self).visited@, final(self).visited@)
    { unimplemented!() }
    #[verifier::external_body]
    pub fn deep_clone_data(&mut self, data: &GcPtr<DataStruct>) -> (r: Result<GcPtr<DataStruct>, Error>)
        ensures r is Ok ==> fresh(r->Ok_0), final(self).receiver_generation == old(self).receiver_generation,
                visited_kept(old(self).visited@, final(self).visited@)
    { unimplemented!() }
    // deep_clone_array is extracted and verified (see spec.toml), no longer assumed
    #[verifier::external_body]
    pub fn deep_clone_closure(&mut self, data: &GcPtr<ClosureData>) -> (r: Result<GcPtr<ClosureData>, Error>)
        ensures r is Ok ==> fresh(r->Ok_0), final(self).receiver_generation == old(self).receiver_generation,
                visited_kept(old(self).visited@, final(self).visited@)
    { unimplemented!() }
    #[verifier::external_body]
    pub fn deep_clone_app(&mut self, data: &GcPtr<PartialApplicationData>) -> (r: Result<GcPtr<PartialApplicationData>, Error>)
        ensures r is Ok ==> fresh(r->Ok_0), final(self).receiver_generation == old(self).receiver_generation,
                visited_kept(old(self).visited@, final(self).visited@)
    { unimplemented!() }
    // `userdata.deep_clone(self).map(|v| v.unrooted())` (trait object call, ASSUMED fresh)
    #[verifier::external_body]
    pub fn userdata_deep_clone(&mut self, data: &GcPtr<UserdataBox>) -> (r: Result<GcPtr<UserdataBox>, Error>)
        ensures r is Ok ==> fresh(r->Ok_0), final(self).receiver_generation == old(self).receiver_generation,
                visited_kept(old(self).visited@, final(self).visited@)
    { unimplemented!() }
}

// what may legitimately come out of a clone into a heap whose policy generation is `recv`
pub open spec fn ok_for_receiver(out: ValueRepr, input: ValueRepr, recv: Generation) -> bool {
    if !is_heap(input) { out == input }                       // scalars by value
    else { (out == input && value_gen(input).0 <= recv.0)     // shared: only from the receiver itself or an ancestor
           || fresh_value(out) }                              // or a new object in the receiving heap
}

#[verifier::external_body]
pub fn rt_panic() -> !
    requires false
{ panic!() }

// After force_full_clone (policy generation < 0) nothing that lives in a real heap (generation >= 0) is shared.
pub proof fn lemma_full_clone_copies_everything(out: ValueRepr, input: ValueRepr, recv: Generation)
    requires recv.0 < 0, value_gen(input).0 >= 0, is_heap(input), ok_for_receiver(out, input, recv)
    ensures fresh_value(out)
{}

// ---- arrays (value.rs ValueArray / Repr): ghost view of an array object
pub enum Repr { Byte, Int, Float, String, Array, Unknown, Userdata, Thread }
pub uninterp spec fn arr_repr(p: GcPtr<ValueArray>) -> Repr;
// "every element of this array may legitimately be held by the receiving heap" (each element is a scalar, a new
// object of the receiving heap, or a pointer the receiver may share)
pub uninterp spec fn elems_ok(p: GcPtr<ValueArray>) -> bool;
// `new` has just been allocated as a bit copy of `old`: same representation, same element words
pub uninterp spec fn shallow_copy_of(new: GcPtr<ValueArray>, old: GcPtr<ValueArray>) -> bool;

// Arrays whose elements are unboxed numbers hold no pointers at all.
#[verifier::external_body]
pub proof fn axiom_scalar_arrays_hold_no_pointers(p: GcPtr<ValueArray>)
    requires arr_repr(p) is Byte || arr_repr(p) is Int || arr_repr(p) is Float
    ensures elems_ok(p)
{}

impl GcPtr<ValueArray> {
    #[verifier::external_body]
    pub fn repr(&self) -> (r: Repr) ensures r == arr_repr(*self) { unimplemented!() }
}

impl<'gc> Cloner<'gc> {
    // `self.deep_clone_ptr(&array, |gc, array| { let ptr = gc.alloc(array)?; Ok((Array(ptr), ptr)) })`:
    // visited hit  => Ok(Ok(the copy made earlier in this clone));
    // visited miss => Ok(Err(new)) where new is a fresh bit copy of the array (elements not yet cloned).  ASSUMED.
    #[verifier::external_body]
    pub fn deep_clone_ptr_array(&mut self, array: &GcPtr<ValueArray>) -> (r: Result<Result<ValueRepr, GcPtr<ValueArray>>, Error>)
        ensures
            final(self).receiver_generation == old(self).receiver_generation, visited_kept(old(self).visited@, final(self).visited@),
            // (the visited map only ever stores ValueRepr::Array under an array's key: the closure passed to deep_clone_ptr above)
            r is Ok && r->Ok_0 is Ok ==> r->Ok_0->Ok_0 is Array && fresh(r->Ok_0->Ok_0->Array_0) && elems_ok(r->Ok_0->Ok_0->Array_0),
            r is Ok && r->Ok_0 is Err ==> fresh(r->Ok_0->Err_0) && shallow_copy_of(r->Ok_0->Err_0, *array) && arr_repr(r->Ok_0->Err_0) == arr_repr(*array),
    { unimplemented!() }

    // `deep_clone_elems(&mut new_array, |e| self.<helper>(e))`: replaces every element by the helper's result
    // (ASSUMED: on success every element is then a new object of the receiving heap / a shareable pointer)
    #[verifier::external_body]
    pub fn deep_clone_elems_with_deep_clone_array(&mut self, new_array: &mut GcPtr<ValueArray>) -> (r: Result<(), Error>)
        ensures r is Ok ==> elems_ok(*final(new_array)), fresh(*final(new_array)) == fresh(*old(new_array)),
                final(self).receiver_generation == old(self).receiver_generation,
                visited_kept(old(self).visited@, final(self).visited@)
    { unimplemented!() }
    #[verifier::external_body]
    pub fn deep_clone_elems_with_deep_clone_inner(&mut self, new_array: &mut GcPtr<ValueArray>) -> (r: Result<(), Error>)
        ensures r is Ok ==> elems_ok(*final(new_array)), fresh(*final(new_array)) == fresh(*old(new_array)),
                final(self).receiver_generation == old(self).receiver_generation,
                visited_kept(old(self).visited@, final(self).visited@)
    { unimplemented!() }
    #[verifier::external_body]
    pub fn deep_clone_elems_with_deep_clone_userdata(&mut self, new_array: &mut GcPtr<ValueArray>) -> (r: Result<(), Error>)
        ensures r is Ok ==> elems_ok(*final(new_array)), fresh(*final(new_array)) == fresh(*old(new_array)),
                final(self).receiver_generation == old(self).receiver_generation,
                visited_kept(old(self).visited@, final(self).visited@)
    { unimplemented!() }
    #[verifier::external_body]
    pub fn deep_clone_elems_with_deep_clone_gc_str(&mut self, new_array: &mut GcPtr<ValueArray>) -> (r: Result<(), Error>)
        ensures r is Ok ==> elems_ok(*final(new_array)), fresh(*final(new_array)) == fresh(*old(new_array)),
                final(self).receiver_generation == old(self).receiver_generation,
                visited_kept(old(self).visited@, final(self).visited@)
    { unimplemented!() }
}

impl Gc {
    // Gc::new(generation, memory_limit) (constructor: fields set as given, ASSUMED) and the two field reads
    #[verifier::external_body]
    pub fn new(generation: Generation, memory_limit: usize) -> (r: Gc) ensures gc_gen(r) == generation, gc_limit(r) == memory_limit { unimplemented!() }
    #[verifier::external_body]
    pub fn memory_limit(&self) -> (r: usize) ensures r == gc_limit(*self) { unimplemented!() }
}


// ---- transfer sites: RootedValue::re_root (thread.rs) and <RootedValue as Pushable>::vm_push (api/mod.rs)
// RootedValue<T> { vm: T, value: Value }: a value rooted in (owned by) the thread `vm`
pub struct SrcRooted<'a> { pub vm: &'a Thread, pub value: Value }
impl<'a> SrcRooted<'a> {
    #[verifier::external_body]
    pub fn vm(&self) -> (r: &Thread) ensures *r == *self.vm { unimplemented!() }
    #[verifier::external_body]
    pub fn get_value(&self) -> (r: &Value) ensures *r == self.value { unimplemented!() }
}
impl RootedValue {
    #[verifier::external_body]
    pub fn get_value(&self) -> (r: &Value) ensures *r == self.v { unimplemented!() }
    // RootedValue::new(vm, &value): roots `value` in `vm`
    #[verifier::external_body]
    pub fn new(vm: &Thread, value: &Value) -> (r: RootedValue) ensures r.v == *value { unimplemented!() }
}
// the value stack of the destination, as a ghost sequence
#[verifier::external_body] pub struct DestStack { _p: () }
impl DestStack {
    pub uninterp spec fn view(&self) -> Seq<Value>;
    #[verifier::external_body]
    pub fn push(&mut self, v: Variants) ensures final(self)@ == old(self)@.push(v.v) { unimplemented!() }
}
// `context.context()`: the locked context of the ACTIVE (destination) thread (R-lock): its thread, its own collector, its stack
pub struct DestContext<'a> { pub thread: &'a Thread, pub gc: &'a mut Gc, pub stack: DestStack }

// std::ptr::eq on threads: address comparison
pub mod ptr {
    use super::*;
    #[verifier::external_body]
    pub fn eq<T>(a: &Thread, b: &Thread) -> (r: bool) ensures r == (tid(*a) == tid(*b)) { unimplemented!() }
}

// ---- records / variants and closures: objects whose FIELDS (upvars) are values
// "none of the pointers held by the fields of this object points into a heap the receiver may not reference": established
// by re-cloning every field with the cloner (the loop `*new = self.deep_clone_inner(old)?` over all fields)
pub uninterp spec fn fields_ok<T>(p: GcPtr<T>) -> bool;
impl<'gc> Cloner<'gc> {
    // `self.deep_clone_ptr(p, |gc, data| { let ptr = gc.alloc(<Def over data's fields>)?; Ok((repr(ptr), ptr)) })`:
    // visited hit  => Ok(Ok(the copy made earlier in this clone, whose fields were -- or are being -- cloned));
    // visited miss => Ok(Err(new)) where new is a fresh object whose fields are still bit copies of the original's.
    // (what deep_clone_ptr itself guarantees is proved on its body; this instance with its allocation closure is ASSUMED)
    #[verifier::external_body]
    pub fn deep_clone_ptr_data(&mut self, p: &GcPtr<DataStruct>) -> (r: Result<Result<ValueRepr, GcPtr<DataStruct>>, Error>)
        ensures
            final(self).receiver_generation == old(self).receiver_generation, visited_kept(old(self).visited@, final(self).visited@),
            r is Ok && r->Ok_0 is Ok ==> r->Ok_0->Ok_0 is Data && fresh(r->Ok_0->Ok_0->Data_0) && fields_ok(r->Ok_0->Ok_0->Data_0),
            r is Ok && r->Ok_0 is Err ==> fresh(r->Ok_0->Err_0),
    { unimplemented!() }
    #[verifier::external_body]
    pub fn deep_clone_ptr_closure(&mut self, p: &GcPtr<ClosureData>) -> (r: Result<Result<ValueRepr, GcPtr<ClosureData>>, Error>)
        ensures
            final(self).receiver_generation == old(self).receiver_generation, visited_kept(old(self).visited@, final(self).visited@),
            r is Ok && r->Ok_0 is Ok ==> r->Ok_0->Ok_0 is Closure && fresh(r->Ok_0->Ok_0->Closure_0) && fields_ok(r->Ok_0->Ok_0->Closure_0),
            r is Ok && r->Ok_0 is Err ==> fresh(r->Ok_0->Err_0),
    { unimplemented!() }
    // `for (new, old) in new.<fields>.iter_mut().zip(&orig.<fields>) { *new = self.deep_clone_inner(old)?; }` (R-iter): every
    // field of the new object is replaced by deep_clone_inner's result for the corresponding field of the original
    #[verifier::external_body]
    pub fn clone_fields_with_deep_clone_inner<T>(&mut self, new: &mut GcPtr<T>, orig: &GcPtr<T>) -> (r: Result<(), Error>)
        ensures
            final(self).receiver_generation == old(self).receiver_generation, visited_kept(old(self).visited@, final(self).visited@),
            fresh(*final(new)) == fresh(*old(new)),
            r is Ok ==> fields_ok(*final(new)),
    { unimplemented!() }
}

// ---- partial applications: a callable (closure or extern function) plus argument values
pub enum Callable { Closure(GcPtr<ClosureData>), Extern(GcPtr<ExternFunction>) }
pub open spec fn callable_fresh(c: Callable) -> bool {
    match c { Callable::Closure(p) => fresh(p), Callable::Extern(p) => fresh(p) }
}
pub uninterp spec fn app_callable(p: GcPtr<PartialApplicationData>) -> Callable;
// `&data.function` (field read through the GcPtr)
#[verifier::external_body]
pub fn app_function(p: &GcPtr<PartialApplicationData>) -> (r: &Callable) ensures *r == app_callable(*p) { unimplemented!() }
impl<'gc> Cloner<'gc> {
    // `self.deep_clone_ptr(&data, |gc, data| { gc.alloc(PartialApplicationDataDef(function, &data.args)) .. })`: a new object
    // built around the GIVEN callable (ASSUMED, like the other instances)
    #[verifier::external_body]
    pub fn deep_clone_ptr_app(&mut self, p: &GcPtr<PartialApplicationData>, function: Callable) -> (r: Result<Result<ValueRepr, GcPtr<PartialApplicationData>>, Error>)
        ensures
            final(self).receiver_generation == old(self).receiver_generation, visited_kept(old(self).visited@, final(self).visited@),
            r is Ok && r->Ok_0 is Ok ==> r->Ok_0->Ok_0 is PartialApplication && fresh(r->Ok_0->Ok_0->PartialApplication_0)
                && fields_ok(r->Ok_0->Ok_0->PartialApplication_0) && callable_fresh(app_callable(r->Ok_0->Ok_0->PartialApplication_0)),
            r is Ok && r->Ok_0 is Err ==> fresh(r->Ok_0->Err_0) && app_callable(r->Ok_0->Err_0) == function,
    { unimplemented!() }
    // the field loop leaves the callable alone
    #[verifier::external_body]
    pub fn clone_args_with_deep_clone_inner(&mut self, new: &mut GcPtr<PartialApplicationData>, orig: &GcPtr<PartialApplicationData>) -> (r: Result<(), Error>)
        ensures
            final(self).receiver_generation == old(self).receiver_generation, visited_kept(old(self).visited@, final(self).visited@),
            fresh(*final(new)) == fresh(*old(new)), app_callable(*final(new)) == app_callable(*old(new)),
            r is Ok ==> fields_ok(*final(new)),
    { unimplemented!() }
}
