// Environment for the token unit (parser/src/token.rs Tokenizer::block_comment).  The tokenizer is projected on a ghost view:
// the input bytes and the index of the next unread byte.
#[verifier::external_body] pub struct Location { _p: () }
impl Clone for Location { #[verifier::external_body] fn clone(&self) -> (r: Location) ensures r == *self { unimplemented!() } }
impl Copy for Location {}
#[verifier::external_body] pub struct SpError { _p: () }
// `&'input str` slices of the source: opaque; the three string operations of the doc-comment branch are named (R-path)
#[verifier::external_body] pub struct StrSlice { _p: () }
impl Clone for StrSlice { #[verifier::external_body] fn clone(&self) -> (r: StrSlice) ensures r == *self { unimplemented!() } }
impl Copy for StrSlice {}
impl StrSlice {
    #[verifier::external_body] pub fn starts_with(&self, p: &str) -> bool { unimplemented!() }
    #[verifier::external_body] pub fn ne_str(&self, p: &str) -> bool { unimplemented!() }
    #[verifier::external_body] pub fn doc_content(&self) -> StrSlice { unimplemented!() }
}
pub enum CommentType { Block, Line }
pub struct Comment { pub typ: CommentType, pub content: StrSlice }
pub enum Token { DocComment(Comment), Other }
pub struct SpannedToken { pub start: Location, pub end: Location, pub value: Token }
pub mod pos {
    use super::*;
    pub fn spanned2(start: Location, end: Location, value: Token) -> (r: SpannedToken) { SpannedToken { start, end, value } }
}

#[verifier::external_body] pub struct Tokenizer { _p: () }
impl Tokenizer {
    pub uninterp spec fn input(&self) -> Seq<u8>;
    pub uninterp spec fn idx(&self) -> int;
    pub open spec fn wf(&self) -> bool { 0 <= self.idx() <= self.input().len() }

    // ASSUMED contracts of the one-byte primitives of the tokenizer (CharLocations::next / peek, 10 lines in token.rs):
    // bump consumes one byte if there is one, lookahead peeks, next_loc reads the position
    #[verifier::external_body]
    pub fn bump(&mut self) -> (r: Option<(Location, u8)>)
        requires old(self).wf()
        ensures final(self).input() == old(self).input(), final(self).wf(),
            old(self).idx() < old(self).input().len() ==> r is Some && r->Some_0.1 == old(self).input()[old(self).idx()] && final(self).idx() == old(self).idx() + 1,
            old(self).idx() >= old(self).input().len() ==> r is None && final(self).idx() == old(self).idx(),
    { unimplemented!() }
    #[verifier::external_body]
    pub fn lookahead(&self) -> (r: Option<(Location, u8)>)
        requires self.wf()
        ensures self.idx() < self.input().len() ==> r is Some && r->Some_0.1 == self.input()[self.idx()],
                self.idx() >= self.input().len() ==> r is None,
    { unimplemented!() }
    #[verifier::external_body]
    pub fn next_loc(&self) -> Location { unimplemented!() }
    // `self.slice(start, end)`: the source text between two locations (opaque)
    #[verifier::external_body]
    pub fn slice(&self, start: Location, end: Location) -> StrSlice { unimplemented!() }
    // eof_error: consumes the rest of the input and reports UnexpectedEof
    #[verifier::external_body]
    pub fn eof_error(&mut self) -> (r: Result<Option<SpannedToken>, SpError>)
        ensures r is Err, final(self).input() == old(self).input()
    { unimplemented!() }
}
// position k holds the terminator `*/`
pub open spec fn closes(s: Seq<u8>, k: int) -> bool { 0 <= k && k + 1 < s.len() && s[k] == 42u8 && s[k + 1] == 47u8 }
