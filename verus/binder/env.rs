// Environment for the binder unit (vm/src/core/mod.rs Binder): the helper that turns the bindings collected while translating
// a record update / constructor application into nested `let`s around the final expression.
#[verifier::external_body] pub struct LetBinding { _p: () }
#[verifier::external_body] pub struct Expr { _p: () }
// core::Expr::Let(binding, body): uninterpreted node constructor (R-gc: the two arena allocations are not represented)
pub uninterp spec fn let_node(b: LetBinding, body: Expr) -> Expr;
#[verifier::external_body]
pub fn mk_let(b: LetBinding, body: Expr) -> (r: Expr) ensures r == let_node(b, body) { unimplemented!() }
pub struct Binder { pub bindings: Vec<LetBinding> }
// THE SPECIFICATION: bindings are evaluated in the order in which they were bound (strict, left to right: the order of the
// fields / arguments in the source), i.e. the FIRST binding is the OUTERMOST let:  let b0 in let b1 in .. in body
pub open spec fn nest_lets(bs: Seq<LetBinding>, body: Expr, i: int) -> Expr
    decreases bs.len() - i
{
    if i >= bs.len() || i < 0 { body } else { let_node(bs[i], nest_lets(bs, body, i + 1)) }
}
