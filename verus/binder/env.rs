// Environment for the binder unit (vm/src/core/mod.rs Binder): the helper that turns the bindings collected while translating
// a record update / constructor application into nested `let`s around the final expression.
#[verifier::external_body] pub struct LetBinding { _p: () }
#[verifier::external_body] pub struct Expr { _p: () }
// core::Expr::Let(binding, body): uninterpreted node constructor (R-gc: the two arena allocations are not represented)
pub uninterp spec fn let_node(b: LetBinding, body: Expr) -> Expr;
#[verifier::external_body]
pub fn mk_let(b: LetBinding, body: Expr) -> (r: Expr) ensures r == let_node(b, body) { unimplemented!() }
pub struct Binder { pub bindings: Vec<LetBinding> }
// THE SPECIFICATION: bindings are evaluated in the order in which they were bound (strict, left to right: the order of the
// fields / arguments in the source), i.e. the FIRST binding is the OUTERMOST let:  let b0 in let b1 in .. in body
pub open spec fn nest_lets(bs: Seq<LetBinding>, body: Expr, i: int) -> Expr
    decreases bs.len() - i
{
    if i >= bs.len() || i < 0 { body } else { let_node(bs[i], nest_lets(bs, body, i + 1)) }
}

// ---- PatternTranslator::translate, base case of the match compilation (no scrutinee variables left)
#[verifier::external_body] pub struct CExprRef { _p: () }          // &'a Expr<'a>: the right-hand side of an alternative
pub struct Equation { pub result: CExprRef }
impl Clone for CExprRef { #[verifier::external_body] fn clone(&self) -> (r: CExprRef) ensures r == *self { unimplemented!() } }
impl Copy for CExprRef {}
// std, documented: the first / last element of a slice, None if it is empty
#[verifier::external_body]
pub fn slice_first(s: &Vec<Equation>) -> (r: Option<&Equation>)
    ensures s@.len() == 0 ==> r is None, s@.len() > 0 ==> r is Some && *r->Some_0 == s@[0]
{ unimplemented!() }
#[verifier::external_body]
pub fn slice_last(s: &Vec<Equation>) -> (r: Option<&Equation>)
    ensures s@.len() == 0 ==> r is None, s@.len() > 0 ==> r is Some && *r->Some_0 == s@[s@.len() - 1]
{ unimplemented!() }

// ---- Translator::translate_ (ast::Expr::Record): is the base of a record update trivial?  base::ast::Expr, same variants
// as in the shrink unit (checked by name every run), payloads opaque
#[verifier::external_body] pub struct AX { _p: () }
pub mod ast {
    use super::AX;
    pub enum Expr {
        Ident(AX), Literal(AX), App { func: AX, implicit_args: AX, args: AX }, Lambda(AX), IfElse(AX, AX, AX), Match(AX, AX),
        Infix { lhs: AX, op: AX, rhs: AX, implicit_args: AX }, Projection(AX, AX, AX), Array(AX),
        Record { typ: AX, types: AX, exprs: AX, base: AX }, Tuple { typ: AX, elems: AX }, LetBindings(AX, AX),
        TypeBindings(AX, AX), Block(AX), Do(AX), MacroExpansion { original: AX, replacement: AX }, Annotated(AX, AX), Error(AX),
    }
}
pub struct SpannedAstExpr { pub value: ast::Expr }

// ---- PatternTranslator::compile_constructor: is the match on a variant complete (every constructor has its group)?
#[verifier::external_body] pub struct Vars { _p: () }          // the scrutinee variables (the first one is matched on)
pub uninterp spec fn ctor_count(v: Vars) -> nat;                // number of constructors of its (alias-free) variant type
pub uninterp spec fn row_closed(v: Vars) -> bool;               // the row of that type ends in EmptyRow (not row-polymorphic)
pub struct Rows { pub count: usize, pub closed: bool }
// R-iter: `variables[0].env_type_of(..)` / `remove_aliases_cow` / `remove_forall().row_iter()` and the two reads of the row
// iterator (`by_ref().count()`, `current_type() == EmptyRow`) are named by this helper
#[verifier::external_body]
pub fn scrutinee_rows(variables: &Vars) -> (r: Rows) ensures r.count == ctor_count(*variables), r.closed == row_closed(*variables) { unimplemented!() }
// the equations grouped by constructor (a hash map in the source): only the number of groups is read here
#[verifier::external_body] pub struct Groups { _p: () }
impl Groups {
    pub uninterp spec fn n(&self) -> nat;
    #[verifier::external_body] pub fn len(&self) -> (r: usize) ensures r == self.n() { unimplemented!() }
}
