// Environment for the newthread unit: the struct literal of Thread::new_thread, i.e. the construction step of the thread
// tree that the clone unit ASSUMES as axiom_thread_tree (child: parent pointer = the spawning thread, same global
// state, collector one generation younger).
pub struct Generation(pub i32);
#[verifier::external_body] pub struct ArcGlobal { _p: () }        // Arc<GlobalVmState>
pub uninterp spec fn global_id(a: ArcGlobal) -> int;              // the address of the shared state
impl Clone for ArcGlobal {
    // Arc::clone: another handle to the SAME state
    #[verifier::external_body]
    fn clone(&self) -> (r: ArcGlobal) ensures global_id(r) == global_id(*self) { unimplemented!() }
}
#[verifier::external_body] pub struct Gc { _p: () }
pub uninterp spec fn gc_gen(g: Gc) -> Generation;
impl Gc {
    // ASSUMED here, PROVED in the clone unit (C13/clone/Gc_new_child_gc): exactly one generation younger
    #[verifier::external_body]
    pub fn new_child_gc(&self) -> (r: Gc)
        requires gc_gen(*self).0 < i32::MAX
        ensures gc_gen(r).0 == gc_gen(*self).0 + 1
    { unimplemented!() }
}
// stack.rs Stack projected on its limit
pub struct StackLim { pub max_stack_size: u32 }
impl StackLim {
    pub fn max_stack_size(&self) -> (r: u32) ensures r == self.max_stack_size { self.max_stack_size }
    pub fn set_max_stack_size(&mut self, max_stack_size: u32) ensures final(self).max_stack_size == max_stack_size { self.max_stack_size = max_stack_size; }
}
pub struct Context { pub gc: Gc, pub stack: StackLim }
impl Context {
    // Context::new(gc): a fresh context around this collector; its stack is Stack::new(), whose limit is VmIndex::MAX
    // (both struct literals, ASSUMED)
    #[verifier::external_body]
    pub fn new(gc: Gc) -> (r: Context) ensures r.gc == gc, r.stack.max_stack_size == u32::MAX { unimplemented!() }
}
#[verifier::external_body] pub struct Roots { _p: () }
#[verifier::external_body] pub struct Children { _p: () }
#[verifier::external_body] pub fn empty_roots() -> Roots { unimplemented!() }
#[verifier::external_body] pub fn empty_children() -> Children { unimplemented!() }
#[verifier::external_body] pub struct ThreadPtr { _p: () }         // GcPtr<Thread>
pub uninterp spec fn tid(t: Thread) -> int;                       // identity (address) of a thread
pub uninterp spec fn ptr_tid(p: ThreadPtr) -> int;
// `unsafe { GcPtr::from_raw(self) }`
#[verifier::external_body]
pub fn ptr_to(t: &Thread) -> (r: ThreadPtr) ensures ptr_tid(r) == tid(*t) { unimplemented!() }
// thread.rs Thread: same fields (checked by name every run); Mutex / RwLock / AtomicBool wrappers dropped (R-lock)
pub struct Thread {
    pub global_state: ArcGlobal,
    pub parent: Option<ThreadPtr>,
    pub context: Context,
    pub rooted_values: Roots,
    pub child_threads: Children,
    pub interrupt: bool,
    pub thread_index: usize,
}
// `Mutex::new(x)`: the lock around the context is not represented (R-lock)
pub struct Mutex;
impl Mutex {
    pub fn new<T>(x: T) -> (r: T) ensures r == x { x }
}
