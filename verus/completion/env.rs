// Environment for the completion unit (completion/src/lib.rs FindVisitor::select_spanned).
pub struct BytePos(pub u32);
impl Clone for BytePos { fn clone(&self) -> (r: BytePos) ensures r == *self { BytePos(self.0) } }
impl Copy for BytePos {}
pub struct Span { pub start: BytePos, pub end: BytePos }
impl Clone for Span { fn clone(&self) -> (r: Span) ensures r == *self { Span { start: self.start, end: self.end } } }
impl Copy for Span {}
#[derive(PartialEq, Eq, Structural)]
pub enum Ordering { Less, Equal, Greater }

impl Span {
    pub open spec fn wf(self) -> bool { self.start.0 <= self.end.0 }
    pub open spec fn has(self, p: BytePos) -> bool { self.start.0 <= p.0 && p.0 <= self.end.0 }
    // contract of base::pos::Span::containment -- PROVED on the real code by Kani (C20/containment/trichotomy);
    // assumed here (cross-engine modularity)
    #[verifier::external_body]
    pub fn containment(self, pos: BytePos) -> (r: Ordering)
        requires self.wf()
        ensures (r is Less) == (pos.0 < self.start.0), (r is Greater) == (pos.0 > self.end.0), (r is Equal) == self.has(pos)
    { unimplemented!() }
}

// T: the sibling nodes; `span(&T)` is the closure argument of select_spanned -- here a field read
pub struct Item { pub span: Span, pub id: int }
impl Clone for Item { #[verifier::external_body] fn clone(&self) -> (r: Item) ensures r == *self { unimplemented!() } }
impl Copy for Item {}

// std::iter::Peekable over the sibling list (std semantics of peek/next, ASSUMED)
#[verifier::external_body]
pub struct Peekable { _p: () }
impl Peekable {
    pub uninterp spec fn items(&self) -> Seq<Item>;
    pub uninterp spec fn idx(&self) -> nat;
    #[verifier::external_body]
    pub fn new(v: Vec<Item>) -> (r: Peekable) ensures r.items() == v@, r.idx() == 0 { unimplemented!() }
    #[verifier::external_body]
    pub fn peek(&mut self) -> (r: Option<&Item>)
        ensures final(self).items() == old(self).items(), final(self).idx() == old(self).idx(),
                old(self).idx() < old(self).items().len() ==> r is Some && *r->Some_0 == old(self).items()[old(self).idx() as int],
                old(self).idx() >= old(self).items().len() ==> r is None,
    { unimplemented!() }
    #[verifier::external_body]
    pub fn next(&mut self) -> (r: Option<Item>)
        ensures final(self).items() == old(self).items(),
                old(self).idx() < old(self).items().len() ==> r == Some(old(self).items()[old(self).idx() as int]) && final(self).idx() == old(self).idx() + 1,
                old(self).idx() >= old(self).items().len() ==> r is None && final(self).idx() == old(self).idx(),
    { unimplemented!() }
}

// completion MatchState projected on its tags (the payload of Found is not inspected here)
// (Found carries what was found; of completion's `Match` only the identifier case is spelled out.  The borrow of the
// symbol lives as long as the AST; lifetimes are not part of what is verified here and are written 'static)
pub enum Match { Ident(Span, &'static Sym, Ty), Other }
pub enum MatchState { NotFound, Empty, Found(Match) }
// `visited`: ghost log of the nodes the search descended into (specification only)
pub struct FindVisitor { pub pos: BytePos, pub found: MatchState, pub visited: Ghost<Seq<int>> }

// siblings as the parser produces them: well formed, in source order, not overlapping
pub open spec fn ordered(s: Seq<Item>) -> bool {
    (forall|i: int| 0 <= i < s.len() ==> (#[trigger] s[i]).span.wf())
    && (forall|i: int, j: int| 0 <= i < j < s.len() ==> (#[trigger] s[i]).span.end.0 <= (#[trigger] s[j]).span.start.0)
}

impl FindVisitor {
    // the recursive traversal step (visit_expr) is NOT under contract; only its being reached with a node matters here
    #[verifier::external_body]
    pub fn visit_expr(&mut self, e: Item) ensures final(self).pos == old(self).pos { unimplemented!() }
    // likewise the recursive step on patterns
    #[verifier::external_body]
    pub fn visit_pattern(&mut self, p: Item) ensures final(self).pos == old(self).pos, final(self).visited@ == old(self).visited@.push(p.id) { unimplemented!() }
}

// ---- Suggest::on_pattern, the as-pattern arm (`x@p`): editor queries run on programs that may NOT type check
#[verifier::external_body] pub struct TypeEnvRef { _p: () }
#[verifier::external_body] pub struct Ty { _p: () }
#[verifier::external_body] pub struct TyErr { _p: () }
#[verifier::external_body] pub struct Sym { _p: () }
#[verifier::external_body] pub struct Pat { _p: () }
pub uninterp spec fn well_typed(p: Pat) -> bool;
impl Pat {
    // base/src/types: `try_type_of` is total; `env_type_of` = `try_type_of(..).unwrap()` panics on an ill-typed pattern
    #[verifier::external_body]
    pub fn try_type_of(&self, env: &TypeEnvRef) -> (r: Result<Ty, TyErr>) ensures well_typed(*self) ==> r is Ok { unimplemented!() }
    #[verifier::external_body]
    pub fn env_type_of(&self, env: &TypeEnvRef) -> Ty requires well_typed(*self) { unimplemented!() }
}
// base::types::Type projected: the variants the position search on types tells apart (payloads opaque); `Type::hole()`
pub enum Type { ExtendRow { p: u8 }, ExtendTypeRow { p: u8 }, Forall(u8), Ident(u8), Builtin(u8), Generic(u8), Alias(u8), Other(u8) }
pub uninterp spec fn type_span(t: Type) -> Span;
impl Type {
    // AstType::span(): the source range of a type node (well formed: start <= end)
    #[verifier::external_body]
    pub fn span(&self) -> (r: Span) ensures r == type_span(*self), r.wf() { unimplemented!() }
    #[verifier::external_body]
    pub fn hole() -> Ty { unimplemented!() }
}
pub struct SpannedSym { pub value: Sym }
impl Clone for Sym { #[verifier::external_body] fn clone(&self) -> (r: Sym) ensures r == *self { unimplemented!() } }
#[verifier::external_body] pub struct ScopedMap { _p: () }
impl ScopedMap {
    // the names made visible so far, in order (ghost view; base::scoped_map::ScopedMap::insert adds a binding to the
    // current scope -- ASSUMED)
    pub uninterp spec fn names(&self) -> Seq<Sym>;
    #[verifier::external_body]
    pub fn insert(&mut self, k: Sym, v: Ty) ensures final(self).names() == old(self).names().push(k) { unimplemented!() }
}
// the variables a pattern binds
pub uninterp spec fn bound_names(p: Pat) -> Seq<Sym>;
// `unaliased.row_iter().find(..).map(|f| f.typ.clone()).unwrap_or_else(Type::hole)` (R-iter)
#[verifier::external_body]
pub fn row_field_type_or_hole(typ: &Ty, field: &Sym) -> (r: Ty) { unimplemented!() }
pub struct Suggest { pub stack: ScopedMap, pub env: TypeEnvRef }
impl Suggest {
    // the recursive step
    #[verifier::external_body]
    pub fn on_pattern(&mut self, p: &Pat) ensures final(self).stack.names() == old(self).stack.names() + bound_names(*p) { unimplemented!() }
}

// ---- visit_pattern, record patterns: `{ name }`, `{ name = pattern }`, `{ Type }` (base/src/ast.rs PatternField projected on spans)
impl Span {
    // base::pos::Span::{new, start, end}: field accessors / constructor (definitions, 3 lines in pos.rs)
    pub fn new(start: BytePos, end: BytePos) -> (r: Span) ensures r.start == start, r.end == end { Span { start, end } }
    pub fn start(self) -> (r: BytePos) ensures r == self.start { self.start }
    pub fn end(self) -> (r: BytePos) ensures r == self.end { self.end }
}
pub struct SpannedName { pub span: Span, pub value: Sym }
pub enum PatternField<'a> { Type { name: SpannedName }, Value { name: SpannedName, value: Option<&'a Item> } }

// the record type the checker inferred for the pattern, and the type it gives to a field (the type itself when the field is
// not in it -- the fallback of the code); `row_iter().find(..).map(..).unwrap_or(typ)` is named by this helper (R-iter)
pub uninterp spec fn field_type_of(record: Ty, field: Sym) -> Ty;
#[verifier::external_body]
pub fn row_field_type<'a>(typ: &'a Ty, field: &Sym) -> (r: &'a Ty) ensures *r == field_type_of(*typ, *field) { unimplemented!() }
impl Clone for Ty { #[verifier::external_body] fn clone(&self) -> (r: Ty) ensures r == *self { unimplemented!() } }

// ---- signature_help: which argument of an application the cursor is in
// R-slice: `<[T]>::first` (std: the first element, None for an empty slice)
#[verifier::external_body]
pub fn first_item(v: &Vec<Item>) -> (r: Option<&Item>)
    ensures v@.len() == 0 ==> r is None, v@.len() > 0 ==> r is Some && *r->Some_0 == v@[0]
{ unimplemented!() }
// R-iter: `args.iter().position(|arg| pos <= arg.span.end()).unwrap_or_else(|| args.len())` (std semantics of position)
#[verifier::external_body]
pub fn position_or_len(v: &Vec<Item>, pos: BytePos) -> (r: usize)
    ensures r <= v@.len(), r < v@.len() ==> pos.0 <= v@[r as int].span.end.0,
            forall|i: int| 0 <= i < r ==> pos.0 > (#[trigger] v@[i]).span.end.0
{ unimplemented!() }

// ---- get_metadata: `record.field` where `record` is a known binding: the metadata of that field, if any
#[verifier::external_body] pub struct SymStr { _p: () }
impl SymStr { #[verifier::external_body] pub fn as_str(&self) -> (r: &str) { unimplemented!() } }
pub struct IdentX { pub name: Sym }
// Arc<Metadata> projected on its `module` map (field name -> metadata of that field); std map semantics: `get` is total,
// indexing (`map[key]`) panics on a missing key -- stated as the precondition of the named method (R-index)
#[verifier::external_body] pub struct ModuleMap { _p: () }
pub struct MetaArc { pub module: ModuleMap }
impl ModuleMap {
    pub uninterp spec fn has(&self, k: &str) -> bool;
    #[verifier::external_body]
    pub fn get(&self, k: &str) -> (r: Option<&MetaArc>) ensures r is Some <==> self.has(k) { unimplemented!() }
    #[verifier::external_body]
    pub fn index(&self, k: &str) -> (r: &MetaArc) requires self.has(k) { unimplemented!() }
}
#[verifier::external_body] pub struct MetaEnv { _p: () }
impl MetaEnv {
    #[verifier::external_body]
    pub fn get(&self, k: &Sym) -> (r: Option<&MetaArc>) { unimplemented!() }
}
