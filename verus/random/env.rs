// Environment for the random unit (src/std_lib/random.rs).
pub type VmInt = i64;
// api::IO: same variants
pub enum IO<T> { Value(T), Exception(String) }
// `rand::rng().random_range(low..high)`: contract of the dependency, from its documentation
// ("Panics if the range is empty") -- ASSUMED; the value itself is arbitrary in [low, high)
#[verifier::external_body]
pub fn rng_random_range(low: VmInt, high: VmInt) -> (r: VmInt)
    requires low < high
    ensures low <= r < high
{ unimplemented!() }
// R-err: format!(..) of the error message
#[verifier::external_body]
pub fn fmt_empty_range(low: VmInt, high: VmInt) -> String { unimplemented!() }
