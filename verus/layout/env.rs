// Environment for the layout unit (parser/src/layout.rs): the context stack of the offside rule and the arm of
// layout_next_token that handles an EXPLICIT `in` closing a let / type / rec context.
// base::pos::Location (same fields), Span<Location>, Spanned<Token, Location>
#[derive(Clone, Copy)]
pub struct Location { pub line: u32, pub column: u32, pub absolute: u32 }
#[derive(Clone, Copy)]
pub struct Span { pub start: Location, pub end: Location }
impl Span {
    // base::pos::Span::start (field accessor)
    pub fn start(self) -> (r: Location) ensures r == self.start { self.start }
}
// token.rs Token projected: only the layout tokens are told apart
pub enum Token { OpenBlock, CloseBlock, Semi, In, Other(u32) }
pub struct SpannedToken { pub span: Span, pub value: Token }
// derived Clone in the source (structural copy)
impl Clone for Token { #[verifier::external_body] fn clone(&self) -> (r: Token) ensures r == *self { unimplemented!() } }
impl Clone for SpannedToken { #[verifier::external_body] fn clone(&self) -> (r: SpannedToken) ensures r == *self { unimplemented!() } }
pub mod pos {
    use super::*;
    // base::pos::spanned: `Spanned { span, value }`
    pub fn spanned(span: Span, value: Token) -> (r: SpannedToken) ensures r.span == span, r.value == value { SpannedToken { span, value } }
}
// layout.rs Context / Offside: same variants and fields (checked by name each run)
#[derive(Clone, Copy)]
pub enum Context { Block { emit_semi: bool }, Brace, Bracket, Paren, Expr, Let, Rec, Type, If, MatchClause, Lambda, Attribute }
#[derive(Clone, Copy)]
pub struct Offside { pub location: Location, pub context: Context }
#[verifier::external_body] pub struct LayoutError { _p: () }
pub struct Contexts { pub stack: Vec<Offside> }
impl Contexts {
    // `self.stack.last()` / `self.stack.last_mut()`: std semantics of <[T]>::last / last_mut (ASSUMED)
    #[verifier::external_body]
    pub fn last(&self) -> (r: Option<&Offside>)
        ensures self.stack@.len() == 0 ==> r is None, self.stack@.len() > 0 ==> r is Some && *(r->Some_0) == self.stack@.last()
    { unimplemented!() }
    #[verifier::external_body]
    pub fn last_mut(&mut self) -> (r: Option<&mut Offside>)
        ensures old(self).stack@.len() == 0 ==> r is None && final(self).stack@ == old(self).stack@,
            old(self).stack@.len() > 0 ==> r is Some && *(r->Some_0) == old(self).stack@.last()
                && final(self).stack@ == old(self).stack@.update(old(self).stack@.len() - 1, *final(r->Some_0)),
    { unimplemented!() }
    // the indentation check in front of a push: reads the stack, may refuse (ASSUMED: does not change the stack)
    #[verifier::external_body]
    pub fn check_unindentation_limit(&mut self, offside: Offside) -> (r: Result<(), LayoutError>)
        ensures final(self).stack@ == old(self).stack@
    { unimplemented!() }
}
pub struct Layout { pub unprocessed_tokens: Vec<SpannedToken>, pub indent_levels: Contexts }

// the enclosing context with its "emit a separator before the next expression" flag cleared
pub open spec fn cleared(o: Offside) -> Offside {
    match o.context { Context::Block { .. } => Offside { location: o.location, context: Context::Block { emit_semi: false } }, _ => o }
}
