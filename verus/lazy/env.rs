// Environment for the lazy unit (vm/src/lazy.rs force): only the arm taken when the thunk's evaluation fails.
#[verifier::external_body] pub struct Value { _p: () }
#[verifier::external_body] pub struct VmError { _p: () }
// futures oneshot channel: sender, receiver and the shared (clonable) receiver, identified by the channel they belong to
pub struct Tx { pub chan: int }
pub struct Rx { pub chan: int }
pub struct Shared { pub chan: int }
pub type Waiters = Option<(Tx, Shared)>;     // Option<(oneshot::Sender<()>, Shared<oneshot::Receiver<()>>)>
// lazy.rs Lazy_: same variants (checked by name each run)
pub enum Lazy_ { Blackhole(usize, Waiters), Thunk(Value), Value(Value) }
// api::RuntimeResult: same variants
pub enum RuntimeResult<T, E> { Return(T), Panic(E) }
pub struct Pushed;
#[verifier::external_body] pub struct PanicMsg { _p: () }
// R-err: `format!("{}", err).into()`
#[verifier::external_body]
pub fn panic_msg(e: VmError) -> PanicMsg { unimplemented!() }

// ---- <Lazy as Userdata>::deep_clone: a lazy value crossing heaps
pub uninterp spec fn same_value(a: Value, b: Value) -> bool;         // structurally equal copy
pub uninterp spec fn fresh_copy(a: Value) -> bool;                   // produced by the receiving cloner during this clone
impl Value {
    #[verifier::external_body]
    pub fn clone_unrooted(&self) -> (r: Value) ensures r == *self { unimplemented!() }
}
#[verifier::external_body] pub struct ThreadPtr { _p: () }
#[verifier::external_body] pub struct Cloner { _p: () }
pub uninterp spec fn cloner_thread(c: Cloner) -> ThreadPtr;
pub struct Variants { pub v: Value }
impl Variants {
    #[verifier::external_body]
    pub fn unrooted(self) -> (r: Value) ensures r == self.v { unimplemented!() }
}
pub enum CloneError { Message(ErrText), Other }
#[verifier::external_body] pub struct ErrText { _p: () }
#[verifier::external_body]
pub fn err_text(s: &str) -> ErrText { unimplemented!() }
impl Cloner {
    // ASSUMED (its share-or-copy guard is proved in the C13 clone unit): the result is a copy the receiver may hold
    #[verifier::external_body]
    pub fn deep_clone(&mut self, value: &Value) -> (r: Result<Variants, CloneError>)
        ensures r is Ok ==> same_value(r->Ok_0.v, *value) && fresh_copy(r->Ok_0.v), cloner_thread(*final(self)) == cloner_thread(*old(self))
    { unimplemented!() }
    #[verifier::external_body]
    pub fn thread(&self) -> (r: ThreadPtr) ensures r == cloner_thread(*self) { unimplemented!() }
}
#[verifier::external_body]
pub fn gcptr_from_raw(vm: ThreadPtr) -> (r: ThreadPtr) ensures r == vm { unimplemented!() }
// Lazy<T> projected: `value: Mutex<Lazy_>` (R-lock), `thread`
pub struct Lazy { pub value: Lazy_, pub thread: ThreadPtr }
// `deep_cloner.gc().alloc(Move(data))`: allocates the boxed userdata in the receiving heap; the result designates `data`
#[verifier::external_body]
pub fn cloner_alloc(c: &mut Cloner, data: Lazy) -> (r: Result<Lazy, CloneError>)
    ensures r is Ok ==> r->Ok_0 == data
{ unimplemented!() }

// ---- force(): the arms that do not start the evaluation, and the one that does
pub struct oneshot;
impl oneshot {
    // a fresh channel: both ends belong to it
    #[verifier::external_body]
    pub fn channel() -> (r: (Tx, Rx)) ensures r.0.chan == r.1.chan { unimplemented!() }
}
impl Rx {
    #[verifier::external_body]
    pub fn shared(self) -> (r: Shared) ensures r.chan == self.chan { unimplemented!() }
}
impl Clone for Shared {
    #[verifier::external_body]
    fn clone(&self) -> (r: Shared) ensures r == *self { unimplemented!() }
}
#[verifier::external_body] pub struct Thread { _p: () }
#[verifier::external_body] pub struct RootedThread { _p: () }
pub uninterp spec fn addr_of(t: Thread) -> usize;            // the identity of a thread: its address
// R-cast: `t as *const Thread as usize`
#[verifier::external_body]
pub fn thread_addr(t: &Thread) -> (r: usize) ensures r == addr_of(*t) { unimplemented!() }
impl Thread {
    #[verifier::external_body]
    pub fn root_thread(&self) -> RootedThread { unimplemented!() }
}
// `vm.current_context().push(value)` (R-lock): the computed value is what the forcing thread receives
#[verifier::external_body]
pub fn ctx_push(vm: &Thread, value: &Value) { unimplemented!() }
// GcPtr<Lazy<A>> projected on the creating thread
pub struct LazyPtr { pub thread: Box<Thread> }
impl Pushed { pub fn default() -> Pushed { Pushed } }
pub enum Either<A, B> { Left(A), Right(B) }
pub struct Ready<T>(pub T);
pub struct future;
impl future {
    pub fn ready<T>(x: T) -> (r: Ready<T>) ensures r.0 == x { Ready(x) }
}
// the future a waiting thread gets: it completes when `chan` fires and then pushes the computed value (the
// continuation `ready.map(move |_| ..).map(RuntimeResult::Return)` itself is not verified)
pub struct Waiting { pub chan: int }
#[verifier::external_body]
pub fn wait_then_push(ready: Shared, lazy: LazyPtr, vm: RootedThread) -> (r: Waiting) ensures r.chan == ready.chan { unimplemented!() }
// the future that runs the computation (the `async move` block; its failure arm is the obligation force_thunk_failed)
pub struct Evaluating;
#[verifier::external_body] pub struct OwnedFunction { _p: () }
#[verifier::external_body]
pub fn owned_function_from_value(vm: &Thread, v: &Value) -> OwnedFunction { unimplemented!() }
#[verifier::external_body]
pub fn evaluate(function: OwnedFunction, lazy: LazyPtr, vm: RootedThread) -> Evaluating { unimplemented!() }
impl Value {
    pub fn get_variants(&self) -> (r: &Value) ensures r == self { self }
}
#[verifier::external_body]
pub fn loop_msg() -> PanicMsg { unimplemented!() }
#[verifier::external_body]
pub fn rt_panic() -> !
    requires false
{ unimplemented!() }
pub type ForceFut = Either<Ready<RuntimeResult<Pushed, PanicMsg>>, Either<Evaluating, Waiting>>;

// ---- the success arm of the computation
pub struct OpaqueValue { pub v: Value }          // OpaqueValue<RootedThread, A>: the computation's result, rooted in the forcing thread
impl OpaqueValue {
    pub fn get_value(&self) -> (r: &Value) ensures *r == self.v { &self.v }
}
pub struct RootedValue { pub v: Value }
impl RootedValue {
    pub fn get_variant(&self) -> (r: Variants) ensures r.v == self.v { Variants { v: self.v.clone_unrooted() } }
}
pub uninterp spec fn owned_by(v: Value, thread: usize) -> bool;      // v lives in a heap the thread at this address may point into
impl Thread {
    // ASSUMED (share-or-copy guard proved in the C13 clone unit): a structurally equal value the RECEIVER (`self`) may hold
    #[verifier::external_body]
    pub fn deep_clone_value(&self, owner: &RootedThread, value: &Value) -> (r: Result<RootedValue, VmError>)
        ensures r is Ok ==> same_value(r->Ok_0.v, *value) && owned_by(r->Ok_0.v, addr_of(*self))
    { unimplemented!() }
}
impl Tx {
    // firing the channel succeeds as long as a receiver is alive (the Shared receiver stored next to the sender is)
    #[verifier::external_body]
    pub fn send(self, x: ()) -> (r: Result<(), ()>) ensures r is Ok { unimplemented!() }
}
#[verifier::external_body]
pub fn ctx_push_rooted(vm: &RootedThread, value: &Value) { unimplemented!() }
#[verifier::external_body]
pub fn clone_error_msg(e: VmError) -> PanicMsg { unimplemented!() }
// RootedThread derefs to Thread: the same operation with the forcing thread as receiver
pub uninterp spec fn rooted_addr(t: RootedThread) -> usize;
impl RootedThread {
    #[verifier::external_body]
    pub fn deep_clone_value(&self, owner: &RootedThread, value: &Value) -> (r: Result<RootedValue, VmError>)
        ensures r is Ok ==> same_value(r->Ok_0.v, *value) && owned_by(r->Ok_0.v, rooted_addr(*self))
    { unimplemented!() }
}
