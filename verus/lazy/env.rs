// Environment for the lazy unit (vm/src/lazy.rs force): only the arm taken when the thunk's evaluation fails.
#[verifier::external_body] pub struct Value { _p: () }
#[verifier::external_body] pub struct VmError { _p: () }
#[verifier::external_body] pub struct Waiters { _p: () }     // Option<(oneshot::Sender<()>, Shared<oneshot::Receiver<()>>)>
// lazy.rs Lazy_: same variants (checked by name each run)
pub enum Lazy_ { Blackhole(usize, Waiters), Thunk(Value), Value(Value) }
// api::RuntimeResult: same variants
pub enum RuntimeResult<T, E> { Return(T), Panic(E) }
pub struct Pushed;
#[verifier::external_body] pub struct PanicMsg { _p: () }
// R-err: `format!("{}", err).into()`
#[verifier::external_body]
pub fn panic_msg(e: VmError) -> PanicMsg { unimplemented!() }
