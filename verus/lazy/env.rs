// Environment for the lazy unit (vm/src/lazy.rs force): only the arm taken when the thunk's evaluation fails.
#[verifier::external_body] pub struct Value { _p: () }
#[verifier::external_body] pub struct VmError { _p: () }
#[verifier::external_body] pub struct Waiters { _p: () }     // Option<(oneshot::Sender<()>, Shared<oneshot::Receiver<()>>)>
// lazy.rs Lazy_: same variants (checked by name each run)
pub enum Lazy_ { Blackhole(usize, Waiters), Thunk(Value), Value(Value) }
// api::RuntimeResult: same variants
pub enum RuntimeResult<T, E> { Return(T), Panic(E) }
pub struct Pushed;
#[verifier::external_body] pub struct PanicMsg { _p: () }
// R-err: `format!("{}", err).into()`
#[verifier::external_body]
pub fn panic_msg(e: VmError) -> PanicMsg { unimplemented!() }

// ---- <Lazy as Userdata>::deep_clone: a lazy value crossing heaps
pub uninterp spec fn same_value(a: Value, b: Value) -> bool;         // structurally equal copy
pub uninterp spec fn fresh_copy(a: Value) -> bool;                   // produced by the receiving cloner during this clone
impl Value {
    #[verifier::external_body]
    pub fn clone_unrooted(&self) -> (r: Value) ensures r == *self { unimplemented!() }
}
#[verifier::external_body] pub struct ThreadPtr { _p: () }
#[verifier::external_body] pub struct Cloner { _p: () }
pub uninterp spec fn cloner_thread(c: Cloner) -> ThreadPtr;
pub struct Variants { pub v: Value }
impl Variants {
    #[verifier::external_body]
    pub fn unrooted(self) -> (r: Value) ensures r == self.v { unimplemented!() }
}
pub enum CloneError { Message(ErrText), Other }
#[verifier::external_body] pub struct ErrText { _p: () }
#[verifier::external_body]
pub fn err_text(s: &str) -> ErrText { unimplemented!() }
impl Cloner {
    // ASSUMED (its share-or-copy guard is proved in the C13 clone unit): the result is a copy the receiver may hold
    #[verifier::external_body]
    pub fn deep_clone(&mut self, value: &Value) -> (r: Result<Variants, CloneError>)
        ensures r is Ok ==> same_value(r->Ok_0.v, *value) && fresh_copy(r->Ok_0.v), cloner_thread(*final(self)) == cloner_thread(*old(self))
    { unimplemented!() }
    #[verifier::external_body]
    pub fn thread(&self) -> (r: ThreadPtr) ensures r == cloner_thread(*self) { unimplemented!() }
}
#[verifier::external_body]
pub fn gcptr_from_raw(vm: ThreadPtr) -> (r: ThreadPtr) ensures r == vm { unimplemented!() }
// Lazy<T> projected: `value: Mutex<Lazy_>` (R-lock), `thread`
pub struct Lazy { pub value: Lazy_, pub thread: ThreadPtr }
// `deep_cloner.gc().alloc(Move(data))`: allocates the boxed userdata in the receiving heap; the result designates `data`
#[verifier::external_body]
pub fn cloner_alloc(c: &mut Cloner, data: Lazy) -> (r: Result<Lazy, CloneError>)
    ensures r is Ok ==> r->Ok_0 == data
{ unimplemented!() }
