// Environment for the apipush unit (vm/src/api/mod.rs AsyncPushable::async_status_push): how a failed primitive
// (Err / RuntimeResult::Panic) becomes Status::Error with its message on the stack.
pub type VmIndex = u32;
pub enum Status { Ok, Yield, Error }
pub enum Poll<T> { Ready(T), Pending }
#[verifier::external_body] #[derive(Debug)] pub struct VmError { _p: () }
#[verifier::external_body] pub struct Lock { _p: () }
#[verifier::external_body] pub struct Value { _p: () }
#[verifier::external_body] pub struct GcStrRef { _p: () }
pub uninterp spec fn str_value(s: GcStrRef) -> Value;
pub uninterp spec fn message_of(e: VmError) -> Seq<char>;
pub uninterp spec fn str_text(s: GcStrRef) -> Seq<char>;
pub struct Variants { pub v: Value }
impl Variants {
    #[verifier::external_body]
    pub fn from(s: GcStrRef) -> (r: Variants) ensures r.v == str_value(s) { unimplemented!() }
}
// R-err: `format!("{}", err)` / `err.to_string()`
#[verifier::external_body]
pub fn fmt_error(e: &VmError) -> (r: String) ensures r@ == message_of(*e) { unimplemented!() }
#[verifier::external_body] pub struct Gc { _p: () }
impl Gc {
    // Gc::alloc_ignore_limit: allocates without consulting the memory limit => cannot fail (its accounting is C07's)
    #[verifier::external_body]
    pub fn alloc_ignore_limit(&mut self, s: &str) -> (r: GcStrRef) ensures str_text(r) == s@ { unimplemented!() }
}
pub struct Stack { pub values: Vec<Value>, pub locked: bool }     // `locked`: the current extern frame holds a stack Lock
impl Stack {
    #[verifier::external_body]
    pub fn push(&mut self, v: Variants) ensures final(self).values@ == old(self).values@.push(v.v) { unimplemented!() }
}
pub struct Context { pub gc: Gc, pub stack: Stack }
pub struct ActiveThread { pub ctx: Context }
impl ActiveThread {
    // context.context(): the locked OwnedContext (R-lock)
    #[verifier::external_body]
    pub fn context(&mut self) -> (r: &mut Context)
        ensures *r == old(self).ctx, *final(r) == final(self).ctx
    { unimplemented!() }
}
// the value being pushed; async_push is the fallible user/implementation-defined part: opaque, any outcome
#[verifier::external_body] pub struct Pushed { _p: () }
pub uninterp spec fn async_push_result(p: Pushed) -> Poll<Result<(), VmError>>;
impl Pushed {
    #[verifier::external_body]
    pub fn async_push(self, context: &mut ActiveThread, lock: Lock, frame_index: VmIndex) -> (r: Poll<Result<(), VmError>>)
        ensures r == async_push_result(self),
                r is Ready && r->Ready_0 is Err ==> final(context).ctx.stack.values@ == old(context).ctx.stack.values@,
    { unimplemented!() }
}

// the ordinary, LIMIT-CHECKED way of pushing a Rust value: may fail with OutOfMemory under a memory limit
impl VmError {
    #[verifier::external_body]
    pub fn to_string(&self) -> (r: String) ensures r@ == message_of(*self) { unimplemented!() }
}
pub trait Pushable: Sized {
    fn vm_push(self, context: &mut ActiveThread) -> (r: Result<(), VmError>);
}
impl Pushable for String {
    #[verifier::external_body]
    fn vm_push(self, context: &mut ActiveThread) -> (r: Result<(), VmError>) { unimplemented!() }
}

// ---- the blanket AsyncPushable impl for synchronous values, and the two result wrappers
impl ActiveThread {
    // `context.stack().release_lock(lock)` (R-frame)
    #[verifier::external_body]
    pub fn release_lock(&mut self, lock: Lock)
        ensures !final(self).ctx.stack.locked, final(self).ctx.stack.values@ == old(self).ctx.stack.values@
    { unimplemented!() }
}
// any synchronous Pushable: what it does to the values is its own business, but it never touches the lock
#[verifier::external_body] pub struct SyncValue { _p: () }
impl SyncValue {
    #[verifier::external_body]
    pub fn vm_push(self, context: &mut ActiveThread) -> (r: Result<(), VmError>)
        ensures final(context).ctx.stack.locked == old(context).ctx.stack.locked
    { unimplemented!() }
}
pub enum RuntimeResult<T, E> { Return(T), Panic(E) }
pub enum IO<T> { Value(T), Exception(String) }
#[verifier::external_body] pub struct PanicPayload { _p: () }       // E: fmt::Display
// R-err: Error::Message(format!("{}", err)) / Error::Message(exc)
#[verifier::external_body]
pub fn error_message_of(e: PanicPayload) -> VmError { unimplemented!() }
#[verifier::external_body]
pub fn error_message(s: String) -> VmError { unimplemented!() }
