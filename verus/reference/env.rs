// Environment for the reference unit (vm/src/reference.rs).
#[verifier::external_body]
pub struct Value { _p: () }

// "structurally equal copy": what the property means by "the value stored" when the store has
// to clone the value into the reference's heap.  Uninterpreted; reflexive by assumption below.
pub uninterp spec fn same_value(a: Value, b: Value) -> bool;

#[verifier::external_body]
pub proof fn axiom_same_value_refl(a: Value)
    ensures same_value(a, a)
{}

impl Value {
    // R-gc: copies the value representation without rooting; identity on the abstract value
    #[verifier::external_body]
    pub fn clone_unrooted(&self) -> (r: Value)
        ensures r == *self
    { unimplemented!() }
}

// api::Generic<A> / thread::RootedValue / Variants: wrappers around one Value
pub struct Generic { pub v: Value }
pub struct RootedValue { pub v: Value }
impl Generic {
    #[verifier::external_body]
    pub fn get_value(&self) -> (r: &Value) ensures *r == self.v { unimplemented!() }
}
impl RootedValue {
    #[verifier::external_body]
    pub fn get_value(&self) -> (r: &Value) ensures *r == self.v { unimplemented!() }
}

#[verifier::external_body]
pub struct VmError { _p: () }

#[verifier::external_body]
pub struct ThreadPtr { _p: () }
// C13: `v` lives in a heap that thread `t` may point into (its own or an ancestor's): what Thread::deep_clone_value
// establishes for its RECEIVER (`self`); proved for the real function in the C13 clone unit, assumed here
pub uninterp spec fn holdable_by(v: Value, t: ThreadPtr) -> bool;

impl ThreadPtr {
    // R-gc: GcPtr<Thread>::clone_unrooted copies the pointer
    #[verifier::external_body]
    pub fn clone_unrooted(&self) -> (r: ThreadPtr) ensures r == *self { unimplemented!() }
    // ASSUMED contract of Thread::deep_clone_value (its share-or-copy guard is verified in the
    // C13 clone unit; structural equality of the copy is not verified anywhere).
    #[verifier::external_body]
    pub fn deep_clone_value(&self, owner: &ThreadPtr, value: &Value) -> (r: Result<RootedValue, VmError>)
        ensures r is Ok ==> same_value(r->Ok_0.v, *value) && holdable_by(r->Ok_0.v, *self)
    { unimplemented!() }
}

// R-err: `format!("{}", err)`
#[verifier::external_body]
pub fn fmt_error(e: VmError) -> String { unimplemented!() }

// api::IO (vm/src/api/mod.rs): same variants
pub enum IO<T> { Value(T), Exception(String) }

// api::RuntimeResult: same variants
pub enum RuntimeResult<T, E> { Return(T), Panic(E) }

// api::Unrooted<A>: wrapper around one Value
pub struct Unrooted { pub v: Value }
impl Unrooted {
    #[verifier::external_body]
    pub fn from(v: Value) -> (r: Unrooted) ensures r.v == v { unimplemented!() }
}

// Reference<T> projected: `value: Mutex<Value>` (R-lock), `thread: GcPtr<Thread>`
pub struct Reference { pub value: Value, pub thread: ThreadPtr }

// vm handle passed to make_ref (WithVM { vm, value })
pub struct WithVM { pub vm: ThreadPtr, pub value: Generic }
#[verifier::external_body]
pub fn gcptr_from_raw(vm: ThreadPtr) -> (r: ThreadPtr) ensures r == vm { unimplemented!() }

// ---- the property as a lemma over the contracts of set/get -------------------------------
pub enum ROp { Set { a: Value, ok: bool, stored: Value }, Get }

// cell content after a history, per the postconditions of `set`
pub open spec fn cell(init: Value, ops: Seq<ROp>) -> Value
    decreases ops.len()
{
    if ops.len() == 0 { init } else {
        match ops.last() {
            ROp::Set { a, ok, stored } => if ok { stored } else { cell(init, ops.drop_last()) },
            ROp::Get => cell(init, ops.drop_last()),
        }
    }
}

// history is consistent with set's contract: a successful set stores a structurally equal copy
pub open spec fn consistent(ops: Seq<ROp>) -> bool {
    forall|i: int| 0 <= i < ops.len() ==> match #[trigger] ops[i] {
        ROp::Set { a, ok, stored } => ok ==> same_value(stored, a),
        ROp::Get => true,
    }
}

pub open spec fn last_ok_set(ops: Seq<ROp>) -> Option<Value>
    decreases ops.len()
{
    if ops.len() == 0 { None } else {
        match ops.last() {
            ROp::Set { a, ok, stored } => if ok { Some(a) } else { last_ok_set(ops.drop_last()) },
            ROp::Get => last_ok_set(ops.drop_last()),
        }
    }
}

// A get after any history yields (a copy of) the most recently stored value, or the initial
// content if nothing was stored.
pub proof fn lemma_reference_last_write(init: Value, ops: Seq<ROp>)
    requires consistent(ops)
    ensures match last_ok_set(ops) {
        Some(a) => same_value(cell(init, ops), a),
        None => cell(init, ops) == init,
    }
    decreases ops.len()
{
    if ops.len() > 0 {
        let p = ops.drop_last();
        assert forall|i: int| 0 <= i < p.len() implies match #[trigger] p[i] {
            ROp::Set { a, ok, stored } => ok ==> same_value(stored, a),
            ROp::Get => true,
        } by { assert(p[i] == ops[i]); }
        lemma_reference_last_write(init, p);
        assert(ops[ops.len() - 1] == ops.last());
    }
}

// ---- value::Cloner as seen from Userdata::deep_clone (opaque; its share-or-copy guard is the C13 clone unit)
#[verifier::external_body]
pub struct Cloner { _p: () }
pub uninterp spec fn cloner_thread(c: Cloner) -> ThreadPtr;
pub struct Variants { pub v: Value }
impl Variants {
    // R-gc: `.unrooted()` forgets the root, identity on the abstract value
    #[verifier::external_body]
    pub fn unrooted(self) -> (r: Value) ensures r == self.v { unimplemented!() }
}
impl Cloner {
    // ASSUMED: Cloner::deep_clone returns a structurally equal copy in the receiving heap; the receiving thread is fixed
    #[verifier::external_body]
    pub fn deep_clone(&mut self, value: &Value) -> (r: Result<Variants, VmError>)
        ensures r is Ok ==> same_value(r->Ok_0.v, *value), cloner_thread(*final(self)) == cloner_thread(*old(self))
    { unimplemented!() }
    #[verifier::external_body]
    pub fn thread(&self) -> (r: ThreadPtr) ensures r == cloner_thread(*self) { unimplemented!() }
}
// `deep_cloner.gc().alloc(Move(data))`: allocates the boxed userdata in the receiving heap; the result designates `data`
#[verifier::external_body]
pub fn cloner_alloc(c: &mut Cloner, data: Reference) -> (r: Result<Reference, VmError>)
    ensures r is Ok ==> r->Ok_0 == data, cloner_thread(*final(c)) == cloner_thread(*old(c))
{ unimplemented!() }

// Value's PartialEq (value.rs; e.g. ValueArray::eq zips the elements and does not compare lengths): NOT under contract, so
// no specification is given: code that branches on `==` between values gets no knowledge from it
impl PartialEq for Value {
    #[verifier::external_body]
    fn eq(&self, other: &Value) -> bool { unimplemented!() }
}
