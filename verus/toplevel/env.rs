// Environment for the toplevel unit: three pieces of vm/src/thread.rs that sit between the host and the interpreter --
// the error path of call_thunk_top, the completion path of return_future's poll function, and the head of the frame
// loop of OwnedContext::execute.  Types are projections of the real ones onto what these statements touch.
pub type VmIndex = u32;
#[verifier::external_body] pub struct Msg { _p: () }
#[verifier::external_body] pub struct Stacktrace { _p: () }
#[verifier::external_body] pub struct Frame { _p: () }
// thread.rs Error (variants used by the extracted text; the rest are `Other`)
pub enum Error { Panic(Msg, Option<Stacktrace>), Interrupted, Dead, Message(Msg), Other(Msg) }
// stack.rs Stack projected on its frame list; `locked`: the top extern frame is locked (stack.rs Lock)
pub struct Stack { pub frames: Vec<Frame>, pub locked: bool }
// thread.rs Context / ActiveThread projected (R-lock: the guard returned by `context()` / `current_context()` is the `&mut` parameter)
pub struct Context { pub stack: Stack }
impl Stack {
    pub fn get_frames(&self) -> (r: &Vec<Frame>) ensures r@ == self.frames@ { &self.frames }
}
pub struct Lock;
#[verifier::external_body] pub struct OwnedCtx { _p: () }
#[verifier::external_body] pub struct RootedValue { _p: () }

pub open spec fn min_len(level: usize, len: nat) -> int { if level <= len { level as int } else { len as int } }
// reset_stack could not get back to `level` (it met a frame it may not pop): the state it leaves behind
pub uninterp spec fn stuck_above(s: Stack, level: usize) -> bool;

// ASSUMED here, PROVED in the stack unit (obligation C06/stack/reset_stack, same clauses): the frames above `level`,
// and only those, are removed.  The real function takes the StackFrame view by value (R-frame: `&mut Stack` here).
#[verifier::external_body]
pub fn reset_stack(stack: &mut Stack, level: usize) -> (r: Result<Stacktrace, Error>)
    ensures
        r is Ok ==> final(stack).frames@ == old(stack).frames@.take(min_len(level, old(stack).frames@.len())),
        r is Err ==> stuck_above(*final(stack), level),
{ unimplemented!() }

impl Context {
    // stack.rs Stack::release_lock (through `context.stack()`, R-frame)
    #[verifier::external_body]
    pub fn release_lock(&mut self, lock: Lock)
        ensures !final(self).stack.locked, final(self).stack.frames@ == old(self).stack.frames@
    { unimplemented!() }
    // ActiveThread::into_owned: hands the context on; no effect on the stack
    #[verifier::external_body]
    pub fn into_owned(&mut self) -> (r: OwnedCtx)
        ensures *final(self) == *old(self)
    { unimplemented!() }
}
// the value produced by the future; pushing it may fail (RuntimeResult::Panic, IO::Exception, stack limit ..)
#[verifier::external_body] pub struct FutValue { _p: () }
impl FutValue {
    #[verifier::external_body]
    pub fn vm_push(self, context: &mut Context) -> (r: Result<(), Error>)
        ensures final(context).stack.locked == old(context).stack.locked, final(context).stack.frames@ == old(context).stack.frames@
    { unimplemented!() }
}
// `Poll::Ready(x)`: the poll function's wrapper is not represented (the `ready!` above the extracted statements has
// already returned Pending otherwise)
pub struct Poll;
impl Poll {
    pub fn Ready<T>(x: T) -> (r: T) ensures r == x { x }
}

// ---- the frame loop of OwnedContext::execute
#[verifier::external_body] pub struct Thread { _p: () }
// the interrupt flag (an AtomicBool read with a relaxed load): a pure read for the duration of one iteration
pub uninterp spec fn interrupt_requested(t: Thread) -> bool;
impl Thread {
    #[verifier::external_body]
    pub fn interrupted(&self) -> (r: bool) ensures r == interrupt_requested(*self) { unimplemented!() }
}
pub struct LoopContext { pub thread: Thread }

// ---- host calls of gluon functions (api/function.rs call_any_first; call_first is its macro-generated twin)
// "the error `out` is what thread.rs reset_after_error returned for `err` at `level`": established only by that function,
// whose own body is verified above against the frame-list contract (reset_after_error on a `&mut Context`)
pub uninterp spec fn was_reset(vm: Thread, level: usize, err: Error, out: Error) -> bool;
#[verifier::external_body]
pub fn reset_after_error_on(vm: &Thread, level: usize, err: Error) -> (r: Error)
    ensures was_reset(*vm, level, err, r)
{ unimplemented!() }
#[verifier::external_body] pub struct RetValue { _p: () }
#[verifier::external_body] pub struct StackValue { _p: () }
pub struct ValStack { pub values: Vec<StackValue> }
impl ValStack {
    #[verifier::external_body]
    pub fn last(&self) -> (r: Option<&StackValue>) ensures r is Some == (self.values@.len() > 0) { unimplemented!() }
    #[verifier::external_body]
    pub fn pop(&mut self) { unimplemented!() }
}
pub struct CallContext { pub stack: ValStack }
#[verifier::external_body]
pub fn from_value(vm: &Thread, v: &StackValue) -> RetValue { unimplemented!() }

// ---- Thread::interrupted(): the poll itself.  `interrupt: AtomicBool`; only `load` reads without writing.
pub enum Ordering { Relaxed, Acquire, Release, AcqRel, SeqCst }
#[verifier::external_body] pub struct AtomicBool { _p: () }
pub uninterp spec fn flag(a: AtomicBool) -> bool;
// frame condition of a poll: it may not WRITE the flag (a poll that consumes the request hides it from every later poll:
// the handler of the first Interrupted error, an enclosing thread ..)
pub closed spec fn poll_may_write() -> bool { false }
impl AtomicBool {
    #[verifier::external_body]
    pub fn load(&self, order: Ordering) -> (r: bool) ensures r == flag(*self) { unimplemented!() }
    #[verifier::external_body]
    pub fn swap(&self, v: bool, order: Ordering) -> (r: bool) requires poll_may_write() ensures r == flag(*self) { unimplemented!() }
    #[verifier::external_body]
    pub fn store(&self, v: bool, order: Ordering) requires poll_may_write() { unimplemented!() }
    #[verifier::external_body]
    pub fn fetch_and(&self, v: bool, order: Ordering) -> (r: bool) requires poll_may_write() ensures r == flag(*self) { unimplemented!() }
    #[verifier::external_body]
    pub fn compare_exchange(&self, cur: bool, new: bool, s: Ordering, f: Ordering) -> (r: Result<bool, bool>) requires poll_may_write() { unimplemented!() }
}
pub struct ThreadFlags { pub interrupt: AtomicBool }
