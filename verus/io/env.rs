// Environment for the io unit (src/std_lib/io.rs): argument validation of the file primitives.
pub enum IO<T> { Value(T), Exception(String) }
pub enum RuntimeResult<T, E> { Return(T), Panic(E) }

// GluonFile(Mutex<Option<File>>): R-lock + the `unwrap_file!` macro (returns the "file has been closed" error for None)
#[verifier::external_body] pub struct FileHandle { _p: () }
pub struct GluonFile(pub Option<FileHandle>);
#[verifier::external_body] pub struct IoError { _p: () }
impl IoError {
    #[verifier::external_body]
    pub fn to_string(&self) -> String { unimplemented!() }
}
impl FileHandle {
    // std::io::Write::write / Read::read on an open file: no panics, any result (ASSUMED)
    #[verifier::external_body]
    pub fn write(&mut self, buf: &[u8]) -> (r: Result<usize, IoError>) ensures r is Ok ==> r->Ok_0 <= buf@.len() { unimplemented!() }
    #[verifier::external_body]
    pub fn read(&mut self, buf: &mut Vec<u8>) -> (r: Result<usize, IoError>)
        ensures final(buf)@.len() == old(buf)@.len(), r is Ok ==> r->Ok_0 <= old(buf)@.len()
    { unimplemented!() }
}
// R-err helpers: message construction
#[verifier::external_body] pub fn msg_closed() -> String { unimplemented!() }
#[verifier::external_body] pub fn msg_start_after_end(start: usize, end: usize) -> String { unimplemented!() }
#[verifier::external_body] pub fn msg_out_of_range(end: usize, len: usize) -> String { unimplemented!() }
#[verifier::external_body] pub fn msg_io(e: IoError) -> String { unimplemented!() }
#[verifier::external_body] pub fn msg_too_large(count: usize) -> String { unimplemented!() }

// Vec::<u8>::with_capacity: documented "Panics if the new capacity exceeds isize::MAX bytes" -- dependency contract, ASSUMED
#[verifier::external_body]
pub fn vec_with_capacity(count: usize) -> (r: Vec<u8>)
    requires count <= isize::MAX as usize
    ensures r@.len() == 0
{ unimplemented!() }
// `buffer.set_len(count)` on a fresh buffer of that capacity (unsafe; contents arbitrary)
#[verifier::external_body]
pub fn vec_set_len(v: &mut Vec<u8>, count: usize)
    ensures final(v)@.len() == count
{ unimplemented!() }
