PROPERTY = "C13"
EXPLANATION = ("Contracts on the share-or-copy decision: the Generation algebra (function contracts on the real "
               "methods, lemmas over the contracts), coherence of the collector's mark decision with the cloner's share "
               "test on a real one-object heap.")
TRUSTED = []
ASSUMPTIONS = [
    "Gc::get_type_info replaced by a non-interning stub in the coherence harness (hash maps are intractable for CBMC)",
    "termination is not proved by Kani",
]
NOT_UNDER_CONTRACT = [
    "Thread::can_share_values_with (parent-chain walk)", "Cloner visited map (sharing/cycles)",
    "structural equality of copies", "lifetime after the sender is dropped",
]

GEN = "vm/src/gc.rs"


def k(h, clause, functions, complete=True, **kw):
    d = dict(engine="kani", crate="gluon_vm", module=GEN, harness=h, name="C13/" + h[len("c13__"):].replace("__", "/"),
             clause=clause, functions=functions, complete=complete)
    d.update(kw)
    return d


def obligations(tier):
    G = "vm/src/gc.rs::Generation::"
    return [
        k("c13__generation__is_root_contract", "is_root() <=> generation == 0", [G + "is_root"]),
        k("c13__generation__is_parent_of_contract", "a.is_parent_of(b) <=> a < b", [G + "is_parent_of"]),
        k("c13__generation__can_contain_contract", "a.can_contain_values_from(b) <=> b <= a", [G + "can_contain_values_from"]),
        k("c13__generation__next_contract", "g < i32::MAX ==> next(g) == g+1, no panic", [G + "next"]),
        k("c13__generation__disjoint_contract", "disjoint() is below every real generation", [G + "disjoint"]),
        k("c13__generation__next_panics_only_at_max", "next panics at i32::MAX (precondition is tight)", [G + "next"]),
        k("c13__generation__disjoint_shares_nothing", "forall g>=0: !disjoint().can_contain_values_from(g) (over contracts)", [G + "disjoint", G + "can_contain_values_from"]),
        k("c13__generation__child_is_strictly_younger", "child may hold parent values, parent never child values (over contracts)", [G + "next", G + "is_parent_of", G + "can_contain_values_from", G + "is_root"]),
        k("c13__generation__share_iff_not_younger", "share test is reflexive, transitive, complement of is_parent_of (over contracts)", [G + "can_contain_values_from", G + "is_parent_of"]),
        k("c13__generation__gc_mark_agrees_with_share", "cloner shares v into r ==> collector of r marks it (own) or skips it (strict ancestor); real Gc::mark on a real heap", ["vm/src/gc.rs::Gc::mark", "vm/src/gc.rs::Gc::alloc_ignore_limit_", G + "can_contain_values_from"]),
    ]
