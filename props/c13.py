PROPERTY = "C13"
EXPLANATION = ("Contracts on the share-or-copy decision: the Generation algebra (function contracts on the real "
               "methods, lemmas over the contracts), coherence of the collector's mark decision with the cloner's share "
               "test on a real one-object heap.")
TRUSTED = []
ASSUMPTIONS = [
    "thread tree axiom (env.rs axiom_thread_tree): a child thread is one level deeper, one generation younger and shares the global state of its parent -- still an axiom of the clone unit, but its construction step is now an obligation of its own (C13/thread/new_thread_construct, on the struct literal of Thread::new_thread, with new_child_gc's proved contract); the induction from the step to the whole tree, and that nothing re-parents a thread later, stay assumed",
    "clone unit: deep_clone_str, the element loop deep_clone_elems, the allocation closure passed to deep_clone_ptr, and hash-map lookups/inserts of the visited map (modelled as a ghost map; Entry API desugared), gc.alloc(Move(ExternFunction::clone)) and Userdata::deep_clone are ASSUMED to return new objects of the receiving heap (fresh); the visited map is opaque",
    "Gc::get_type_info replaced by a non-interning stub in the coherence harness (hash maps are intractable for CBMC)",
    "termination is not proved by Kani",
]
NOT_UNDER_CONTRACT = [
    "deep_clone_data/closure/app/str bodies (assumed fresh)",
    "structural equality of copies", "lifetime after the sender is dropped",
]

GEN = "vm/src/gc.rs"


def k(h, clause, functions, complete=True, **kw):
    d = dict(engine="kani", crate="gluon_vm", module=GEN, harness=h, name="C13/" + h[len("c13__"):].replace("__", "/"),
             clause=clause, functions=functions, complete=complete)
    d.update(kw)
    return d


def v(fn, clause, source):
    return dict(engine="verus", unit="clone", function=fn, name="C13/clone/%s" % fn.replace("::", "_"), clause=clause, source=source)


def obligations(tier):
    return kani_obligations(tier) + [
        v("Generation::is_root", "is_root() <=> generation == 0 (source-level twin of the Kani contract)", "vm/src/gc.rs::Generation::is_root"),
        v("Generation::disjoint", "disjoint() < every real generation", "vm/src/gc.rs::Generation::disjoint"),
        v("Generation::is_parent_of", "a.is_parent_of(b) <=> a < b", "vm/src/gc.rs::Generation::is_parent_of"),
        v("Generation::can_contain_values_from", "a.can_contain_values_from(b) <=> b <= a", "vm/src/gc.rs::Generation::can_contain_values_from"),
        v("Generation::next", "g < i32::MAX ==> next(g) == g + 1, no panic", "vm/src/gc.rs::Generation::next"),
        v("Value::generation", "generation of a value is the generation of the heap object it points to; scalars: root", "vm/src/value.rs::Value::generation"),
        v("Cloner::force_full_clone", "afterwards the share policy generation is below every real generation", "vm/src/value.rs::Cloner::force_full_clone"),
        v("Cloner::deep_clone_inner", "a pointer is returned uncopied only if receiver_generation can contain its generation; otherwise the result is a new object of the receiving heap; scalars by value; policy unchanged", "vm/src/value.rs::Cloner::deep_clone_inner"),
        v("Cloner::deep_clone_array", "the copy of an array is a new object of the receiving heap and every pointer-carrying element representation (String, Array, Unknown, Userdata) has its elements cloned; Thread arrays are refused", "vm/src/value.rs::Cloner::deep_clone_array"),
        v("Cloner::deep_clone_ptr", "copies are remembered by the address of the object copied: a second pointer to an already copied object yields the same copy (sharing preserved) and the copy is recorded before the children are cloned (cycles terminate)", "vm/src/value.rs::Cloner::deep_clone_ptr"),
        v("Cloner::deep_clone_data", "the copy of a record / variant is a new object of the receiving heap and every field has been cloned in turn (no shallow copy); the contract assumed at its call site in deep_clone_inner is proved on its body", "vm/src/value.rs::Cloner::deep_clone_data"),
        v("Cloner::deep_clone_closure", "the copy of a closure is a new object of the receiving heap and every captured variable has been cloned in turn", "vm/src/value.rs::Cloner::deep_clone_closure"),
        v("Cloner::deep_clone_app", "the copy of a partial application is a new object built around a COPY of the function it applies, and every argument it holds has been cloned in turn", "vm/src/value.rs::Cloner::deep_clone_app"),
        v("Gc::new_child_gc", "a child collector is exactly one generation younger than its parent's", "vm/src/gc.rs::Gc::new_child_gc"),
        v("Cloner::new", "a cloner's share policy starts as the generation of the receiving collector", "vm/src/value.rs::Cloner::new"),
        v("Cloner::deep_clone", "same guarantee as deep_clone_inner for the rooted result", "vm/src/value.rs::Cloner::deep_clone"),
        v("Thread::can_share_values_with", "true exactly for the same thread or an ancestor/descendant within one VM (parent-chain walk, unbounded depth)", "vm/src/thread.rs::Thread::can_share_values_with"),
        v("Thread::deep_clone_value", "into an unrelated thread everything is copied; within one ancestor chain a pointer is shared only if it lives in the receiver's own heap or an ancestor's", "vm/src/thread.rs::Thread::deep_clone_value"),
        v("RootedValue::re_root", "host moving a handle to another thread/VM: everything is copied unless source and destination are the same thread or ancestor/descendant", "vm/src/thread.rs::RootedValue::re_root"),
        v("RootedValue::vm_push", "a handle pushed into a thread: exactly one value is pushed and it obeys the same share-or-copy rule; on failure the stack is untouched", "vm/src/api/mod.rs::<RootedValue as Pushable>::vm_push"),
        dict(engine="verus", unit="lazy", function="Lazy::deep_clone", name="C13/lazy/Lazy_deep_clone", source="vm/src/lazy.rs::<Lazy as Userdata>::deep_clone",
             clause="a lazy value crossing heaps belongs to the receiving thread and what it holds (pending computation or computed result) is a copy made by the receiving cloner; a value being evaluated is refused"),
        v("lemma_ancestor_is_older", "an ancestor thread's generation is strictly smaller (induction over the parent chain)", "lemma over the thread-tree axiom"),
        dict(engine="verus", unit="reference", function="Reference::deep_clone", name="C13/reference/Reference_deep_clone", source="vm/src/reference.rs::<Reference as Userdata>::deep_clone",
             clause="a reference crossing heaps becomes a reference owned by the RECEIVING thread holding a copy of the content"),
        dict(engine="verus", unit="newthread", function="Thread::new_thread::construct", name="C13/thread/new_thread_construct", source="vm/src/thread.rs::Thread::new_thread (up to the allocation of the new thread)",
             clause="construction step of the thread tree assumed by the clone unit: a spawned thread's parent pointer is its spawner, it shares the spawner's global state, and its collector is exactly one generation younger"),
        # transfer sites: the value stored is the copy deep_clone_value made for the thread that OWNS the channel / cell / lazy value
        dict(engine="verus", unit="channel", function="send(C13)", name="C13/channel/send", source="vm/src/channel.rs::send",
             clause="transfer site: what is queued is the copy made for the channel's own thread (holdable_by), never the sender's pointer"),
        dict(engine="verus", unit="reference", function="set(C13)", name="C13/reference/set", source="vm/src/reference.rs::set",
             clause="transfer site: what is stored in the cell is the copy made for the reference's own thread"),
        dict(engine="verus", unit="reference", function="st::set(C13)", name="C13/reference/st_set", source="vm/src/reference.rs::st::set",
             clause="transfer site (st variant): same"),
        dict(engine="verus", unit="lazy", function="force::thunk_succeeded(C13)", name="C13/lazy/force_thunk_succeeded", source="vm/src/lazy.rs::force (arm: the computation succeeded)",
             clause="transfer site: the computed value stored in a lazy value is the copy made for the lazy value's own thread, not the forcing thread's pointer"),
        v("lemma_full_clone_copies_everything", "after force_full_clone no value of a real heap is ever shared (over the two contracts)", "lemma"),
    ]


def kani_obligations(tier):
    G = "vm/src/gc.rs::Generation::"
    return [
        k("c13__generation__is_root_contract", "is_root() <=> generation == 0", [G + "is_root"]),
        k("c13__generation__is_parent_of_contract", "a.is_parent_of(b) <=> a < b", [G + "is_parent_of"]),
        k("c13__generation__can_contain_contract", "a.can_contain_values_from(b) <=> b <= a", [G + "can_contain_values_from"]),
        k("c13__generation__next_contract", "g < i32::MAX ==> next(g) == g+1, no panic", [G + "next"]),
        k("c13__generation__disjoint_contract", "disjoint() is below every real generation", [G + "disjoint"]),
        k("c13__generation__next_panics_only_at_max", "next panics at i32::MAX (precondition is tight)", [G + "next"]),
        k("c13__generation__disjoint_shares_nothing", "forall g>=0: !disjoint().can_contain_values_from(g) (over contracts)", [G + "disjoint", G + "can_contain_values_from"]),
        k("c13__generation__child_is_strictly_younger", "child may hold parent values, parent never child values (over contracts)", [G + "next", G + "is_parent_of", G + "can_contain_values_from", G + "is_root"]),
        k("c13__generation__share_iff_not_younger", "share test is reflexive, transitive, complement of is_parent_of (over contracts)", [G + "can_contain_values_from", G + "is_parent_of"]),
        k("c13__generation__gc_mark_agrees_with_share", "cloner shares v into r ==> collector of r marks it (own) or skips it (strict ancestor); real Gc::mark on a real heap", ["vm/src/gc.rs::Gc::mark", "vm/src/gc.rs::Gc::alloc_ignore_limit_", G + "can_contain_values_from"]),
    ]
