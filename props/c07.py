PROPERTY = "C07"
EXPLANATION = ("Contracts on the three limit computations: the allocation limit check of the real Gc::alloc_owned (Kani, symbolic "
               "counters, full usize domain), the collection trigger, the frame-entry stack check of the real add_new_frame (Verus), "
               "and the per-instruction step of the compile-time stack accounting (Instruction::adjust, FunctionEnv::emit/"
               "increase_stack/emit_call; Verus).")
ASSUMPTIONS = [
    "Gc::get_type_info replaced by a non-interning stub (hash maps are intractable for CBMC); payload types u8/u64 stand for all Sized payloads (the limit arithmetic only uses size_of)",
    "allocated_memory <= isize::MAX (the allocator cannot hand out more)",
    "add_new_frame: stack.len() + max_stack_size does not wrap u32 (needs >= 2^32 stack slots)",
    "instruction operands <= i32::MAX (operand_fits) so that the i32 stack effect is exact",
    "alloc_ignore_limit call sites are deliberate escape hatches and are not verified",
    "toplevel unit: nobody else writes the interrupt flag during one loop iteration (that the poll itself does not is the obligation interrupted_is_a_pure_poll); the rest of the loop body is replaced by `Ok(())`",
    "termination not proved by Kani",
]
NOT_UNDER_CONTRACT = ["that one pass of the frame loop runs for a bounded time (an extern function may run for ever)", "native-stack depth of compiler/typechecker recursion",
                      "induction over Compiler::compile_ that max_stack_size bounds run-time use (compile_ also edits stack_size directly)"]
GC = "vm/src/gc.rs"


def k(h, clause, functions, **kw):
    d = dict(engine="kani", crate="gluon_vm", module=GC, harness=h, name="C07/" + h[len("c07__"):].replace("__", "/"),
             clause=clause, functions=functions, complete=True)
    d.update(kw)
    return d


def v(unit, fn, clause, source):
    return dict(engine="verus", unit=unit, function=fn, name="C07/%s/%s" % (unit, fn.replace("(C07)", "").replace("::", "_")), clause=clause, source=source)


def obligations(tier):
    ml = "Ok => new.allocated == old + header + size (no wrap) and new.allocated <= memory_limit; Err => OutOfMemory{limit, needed>=limit}, heap unchanged, and the allocation really would reach the limit"
    return [
        k("c07__mem_limit__alloc_owned_u8", ml + " [payload u8]", [GC + "::Gc::alloc_owned", GC + "::Gc::alloc_ignore_limit_", GC + "::AllocPtr::new"]),
        k("c07__mem_limit__alloc_owned_u64", ml + " [payload u64]", [GC + "::Gc::alloc_owned", GC + "::Gc::alloc_ignore_limit_", GC + "::AllocPtr::new"]),
        k("c07__mem_limit__limit_stored_as_given", "Gc::new and Gc::set_memory_limit store the limit they are given; setting it leaves the accounting untouched", [GC + "::Gc::new", GC + "::Gc::set_memory_limit"]),
        k("c07__check_collect__trigger_iff_limit_reached", "collect runs iff allocated >= collect_limit; afterwards collect_limit == 2*allocated; memory_limit untouched", [GC + "::Gc::check_collect", GC + "::Gc::collect", GC + "::Gc::sweep"]),
        v("stack", "StackFrame::add_new_frame", "Ok <=> len + max_stack_size(state) <= stack.max_stack_size; Err(StackOverflow(limit)) leaves the stack unchanged; Ok pushes exactly the frame {offset: len-args, state, excess}", "vm/src/stack.rs::StackFrame::add_new_frame"),
        v("stack", "StackFrame::enter_scope_excess", "the entry point of every call: Ok <=> len + max_stack_size(state) <= limit, Err(StackOverflow(limit)) otherwise; Ok pushes exactly one frame and leaves the values alone", "vm/src/stack.rs::StackFrame::enter_scope_excess"),
        v("stack", "StackFrame::enter_scope", "same guarantee for enter_scope (excess = false)", "vm/src/stack.rs::StackFrame::enter_scope"),
        v("stack", "arm::TailCall(C07)", "a tail call leaves the running frame first (the frame list shrinks) and moves the new function and its arguments down onto the slot of the returning function: nothing of the finished call remains on the stack (constant stack); pending excess arguments are appended to the call", "vm/src/thread.rs::execute_ arm TailCall"),
        dict(engine="verus", unit="clone", function="Gc::new_child_gc(limit)", name="C07/gc/new_child_gc_inherits_limit", source="vm/src/gc.rs::Gc::new_child_gc",
             clause="the collector of a spawned thread gets its spawner's memory limit: spawning is no way around the limit"),
        dict(engine="verus", unit="newthread", function="Thread::new_thread::construct(C07)", name="C07/thread/new_thread_inherits_stack_limit", source="vm/src/thread.rs::Thread::new_thread (up to the allocation of the new thread)",
             clause="a spawned thread runs under the stack limit of the thread that spawned it"),
        dict(engine="verus", unit="toplevel", function="Thread::interrupted", name="C07/thread/interrupted_is_a_pure_poll", source="vm/src/thread.rs::Thread::interrupted",
             clause="the poll returns the interrupt flag and does not write it (frame condition: the flag's write operations have a precondition a poll cannot meet): the request stays visible to every later poll"),
        dict(engine="verus", unit="toplevel", function="execute::loop_head", name="C07/thread/execute_loop_polls_interrupt", source="vm/src/thread.rs::OwnedContext::execute (loop body up to the dispatch on the frame state)",
             clause="every pass through the frame loop -- every call, tail call and return -- polls the interrupt flag before dispatching: requested => Err(Interrupted), not requested => the dispatch is reached"),
        v("stack", "Stack::set_max_stack_size", "the configured stack limit is stored as given; values and frames untouched", "vm/src/stack.rs::Stack::set_max_stack_size"),
        v("stack", "Stack::max_stack_size", "the limit read back is the one stored", "vm/src/stack.rs::Stack::max_stack_size"),
        v("stack", "ExecuteContext::exit_scope", "leaving a scope pops exactly the top frame, never a locked one", "vm/src/thread.rs::ExecuteContext::exit_scope"),
        v("compiler", "compile_primitive::or(C07)", "tail position is propagated into the right operand of `||` (so a recursive call there is a TailCall and runs in constant stack)", "vm/src/compiler.rs::compile_primitive (|| block)"),
        v("compiler", "compile_primitive::and(C07)", "tail position is propagated into the right operand of `&&`", "vm/src/compiler.rs::compile_primitive (&& block)"),
        dict(engine="verus", unit="compiler", function="compile_::match_alternative_body", name="C07/compiler/match_alternative_inherits_tail_position", source="vm/src/compiler.rs::Compiler::compile_ (Expr::Match, the statement compiling an alternative's body)",
             clause="the body of every match alternative is compiled with the tail flag of the whole match, whatever its pattern binds"),
        v("compiler", "Instruction::adjust", "adjust(i) == documented stack effect of i", "vm/src/types.rs::Instruction::adjust"),
        v("compiler", "FunctionEnv::increase_stack", "stack_size += n; max_stack_size = max(old max, new size); invariant max >= size", "vm/src/compiler.rs::FunctionEnv::increase_stack"),
        v("compiler", "FunctionEnv::emit", "size' = size + effect(i) (Slide(0) is dropped); instruction appended; max monotone and >= size", "vm/src/compiler.rs::FunctionEnv::emit"),
        v("compiler", "FunctionEnv::emit_call", "emits Call/TailCall(args); size' = size - args; max unchanged", "vm/src/compiler.rs::FunctionEnv::emit_call"),
    ]
