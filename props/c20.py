PROPERTY = "C20"
EXPLANATION = ("Position-search core of the editor queries: span containment is total and trichotomous over all (start,end,pos); the sibling "
               "selection of FindVisitor::select_spanned never panics and selects a containing sibling / the right neighbour (bounded in the "
               "number of siblings); is_macro_expanded is exactly 'dummy start or outside the source span'.")
ASSUMPTIONS = [
    "sibling spans are ordered and non-overlapping (what the parser produces)",
    "select_spanned: the unbounded proof is the Verus obligation (Peekable over the sibling list modelled with std's peek/next semantics, `span` closure = field read, Span::containment's contract taken from the Kani proof); the Kani instances N = 1..4 on the compiled code are its bounded twins and give concrete counterexamples",
    "termination not proved by Kani",
]
NOT_UNDER_CONTRACT = ["completion::complete / find traversal of the typed AST", "suggestion scoping other than as-patterns and record-pattern fields (ScopedMap::insert assumed to add a binding; `bound_names` of a nested pattern is uninterpreted)", "agreement of reported types with the checker other than the label of a record-pattern field (row lookup named by a helper)", "signature_help other than the argument index (first / position: std semantics assumed)", "get_metadata other than the lookup for a projected field", "behaviour on Expr::Error nodes"]
POS = "base/src/pos.rs"
COMP = "completion/src/lib.rs"


def k(crate, module, h, clause, functions, **kw):
    d = dict(engine="kani", crate=crate, module=module, harness=h, name="C20/" + h[len("c20__"):].replace("__", "/"), clause=clause, functions=functions, complete=True)
    d.update(kw)
    return d


def obligations(tier):
    S = POS + "::Span::"
    out = [
        k("gluon_base", POS, "c20__containment__contains_is_interval_inclusion", "contains / contains_pos are interval inclusion", [S + "contains", S + "contains_pos"]),
        k("gluon_base", POS, "c20__containment__trichotomy", "containment(pos): Less iff pos < start, Greater iff pos > end, Equal iff start <= pos <= end; total", [S + "containment"]),
        k("gluon_base", POS, "c20__containment__exclusive_differs_only_at_end", "containment_exclusive == containment except Greater at pos == end", [S + "containment_exclusive"]),
        k("gluon_completion", COMP, "c20__macro_expanded__iff_outside_source", "is_macro_expanded(span) <=> span.start == 0 or span not inside source_span", [COMP + "::FindVisitor::is_macro_expanded"]),
    ]
    out.append(dict(engine="verus", unit="completion", function="FindVisitor::select_spanned", name="C20/completion/FindVisitor_select_spanned", source=COMP + "::FindVisitor::select_spanned",
                    clause="for ANY number of ordered siblings and any cursor: terminates without panic; (false, Some(x)) => x is the first sibling containing the cursor; (true, prev) => no sibling contains it, prev is the last sibling before the cursor (or the first one if the cursor precedes all), None only for an empty list"))
    out.append(dict(engine="verus", unit="completion", function="FindVisitor::visit_one", name="C20/completion/FindVisitor_visit_one", source=COMP + "::FindVisitor::visit_one",
                    clause="selecting one child to descend into never panics, for every sibling list including the empty one (`[]`)"))
    out.append(dict(engine="verus", unit="completion", function="FindVisitor::visit_pattern::Tuple", name="C20/completion/FindVisitor_visit_pattern_tuple", source=COMP + "::FindVisitor::visit_pattern (arm Pattern::Tuple)",
                    clause="descending into a tuple pattern never panics, for every element list including the empty one (the unit pattern `()`)"))
    out.append(dict(engine="verus", unit="completion", function="FindVisitor::visit_pattern::record_field_span", name="C20/completion/record_pattern_field_span", source=COMP + "::FindVisitor::visit_pattern (arm Pattern::Record, span closure)",
                    clause="a record-pattern field `name = pattern` occupies the range from its label to the end of its pattern (a cursor inside the nested pattern selects the field), a shorthand field its label"))
    out.append(dict(engine="verus", unit="completion", function="FindVisitor::visit_pattern::record_value_field", name="C20/completion/visit_pattern_record_value_field", source=COMP + "::FindVisitor::visit_pattern (arm Pattern::Record, PatternField::Value)",
                    clause="cursor on the label of a record-pattern field: the label is reported with the type of that field; behind the label of `name = pattern`: the search descends into the pattern; otherwise nothing is reported"))
    out.append(dict(engine="verus", unit="completion", function="Suggest::on_pattern::record_value_field", name="C20/completion/Suggest_on_pattern_record_value_field", source=COMP + "::Suggest::on_pattern (arm Pattern::Record, PatternField::Value)",
                    clause="a record-pattern field `name = pattern` brings exactly the variables of the nested pattern into scope (not the label); a shorthand field binds its label"))
    out.append(dict(engine="verus", unit="completion", function="signature_help::argument_index", name="C20/completion/signature_help_argument_index", source=COMP + "::signature_help (the computation of the argument index)",
                    clause="total for every argument list including the empty one (applications with only implicit arguments); an index is reported iff the cursor is at or behind the start of the first argument"))
    out.append(dict(engine="verus", unit="completion", function="get_metadata::projection_field", name="C20/completion/get_metadata_projection_field", source=COMP + "::get_metadata (projection arm)",
                    clause="the metadata lookup for `record.field` is total: a record whose metadata has no entry for the field yields None, no panic"))
    out.append(dict(engine="verus", unit="completion", function="FindVisitor::visit_ast_type::guard", name="C20/completion/visit_ast_type_guard", source=COMP + "::FindVisitor::visit_ast_type (the guard in front of the dispatch)",
                    clause="the position search enters a type node iff the cursor is inside its source range, except the two row forms whose ranges are not set"))
    out.append(dict(engine="verus", unit="completion", function="Suggest::on_pattern::As", name="C20/completion/Suggest_on_pattern_as", source=COMP + "::Suggest::on_pattern (arm Pattern::As)",
                    clause="binding the name of an as-pattern never panics, also when the pattern under it does not type check (only the total try_type_of may be used: env_type_of has the precondition `well typed`)"))
    ns = [1, 2, 3] if tier == "quick" else [1, 2, 3, 4]
    for n in ns:
        out.append(k("gluon_completion", COMP, "c20__select__siblings_%d" % n,
                     "select_spanned over %d ordered siblings, any cursor: no panic; (false, Some(x)) => x is the first sibling containing the cursor; (true, prev) => no sibling contains it and prev is the last one before it" % n,
                     [COMP + "::FindVisitor::select_spanned"], complete=False, bound="%d siblings" % n))
    return out
