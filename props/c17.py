PROPERTY = "C17"
EXPLANATION = ("Sequential contracts of the channel queue operations and of reference set/get on the real bodies "
               "(Verus, extracted each run), plus lemmas showing that the contracts imply FIFO exactly-once delivery "
               "and last-write-wins for every operation history.")
ASSUMPTIONS = [
    "R-lock: each body is verified as the critical section under its Mutex; interleavings of critical sections are covered by the history lemmas (any order of operations), lock acquisition/poisoning is not modelled",
    "Thread::deep_clone_value returns a structurally equal copy (assumed contract; see C13 for its share-or-copy guard)",
    "lazy values: the three synchronous pieces of force are under contract (R-arm): the arm that starts the evaluation (its `async move` block replaced by a stand-in), the arms for a value that is being evaluated / already computed (the waiter's continuation replaced by a stand-in), and the failure arm of the computation. oneshot::channel/shared/clone are given their channel identity as assumed contracts; thread identity is the thread's address. That the waiters are actually fired (the sender is consumed either way), the waiter continuation and coroutine spawn/yield are NOT covered; `recv` has its `.map_err(|_| ()).map(Unrooted::from)` desugared to the match that defines them (R-map)",
]
NOT_UNDER_CONTRACT = ["vm/src/lazy.rs force: that stored waiters are fired, the waiter continuation", "channel::yield_/spawn and the scheduling of coroutines (poll/wake); of resume only the dead-thread check and the reporting of the outcome"]


def v(unit, fn, clause, source=None):
    return dict(engine="verus", unit=unit, function=fn, name="C17/%s/%s" % (unit, fn.replace("::", "_")), clause=clause,
                source=source or fn)


def obligations(tier):
    return [
        v("channel", "Sender::send", "queue' == queue.push(value): appended at the back, nothing else changed", "vm/src/channel.rs::Sender::send"),
        v("channel", "Receiver::try_recv", "empty => Err(()) and queue unchanged (reports emptiness, never blocks); else Ok(queue[0]) and queue' == queue.skip(1)", "vm/src/channel.rs::Receiver::try_recv"),
        v("channel", "send", "the send primitive never raises; Ok => exactly one value, a copy of the argument, appended at the back; Err => queue unchanged (a failed clone is reported, never swallowed)", "vm/src/channel.rs::send"),
        v("channel", "recv", "the recv primitive never raises and never blocks: empty => Err reported, else the oldest value delivered and removed", "vm/src/channel.rs::recv"),
        dict(engine="verus", unit="channel", function="resume::report", name="C17/channel/resume_report", source="vm/src/channel.rs::resume (the `match result` block)",
             clause="resuming a finished (dead) coroutine is reported as an error value; a yield or a completed step is a success; any other failure is raised, never swallowed"),
        dict(engine="verus", unit="toplevel", function="resume::dead_check", name="C17/thread/resume_dead_check", source="vm/src/thread.rs::Thread::resume (statements before the interpreter is entered)",
             clause="a coroutine with only its top-level frame left has finished: resume returns Error::Dead and does not enter the interpreter"),
        v("channel", "lemma_fifo", "for every history: received ++ queued == sent (in order, exactly once)", "lemma over the two contracts"),
        v("reference", "set", "Value => cell holds a copy of the argument; Exception => cell unchanged", "vm/src/reference.rs::set"),
        v("reference", "get", "returns exactly the cell content", "vm/src/reference.rs::get"),
        v("reference", "make_ref", "new cell holds the argument", "vm/src/reference.rs::make_ref"),
        v("reference", "st::set", "Return => cell holds a copy of the argument; Panic => cell unchanged", "vm/src/reference.rs::st::set"),
        v("reference", "st::get", "returns exactly the cell content", "vm/src/reference.rs::st::get"),
        dict(engine="verus", unit="lazy", function="force::thunk_failed", name="C17/lazy/force_thunk_failed", source="vm/src/lazy.rs::force (arm: the computation failed)",
             clause="when the computation of a lazy value fails, the value is not left in the being-evaluated state (so every later force, from any thread, gets an answer instead of waiting)"),
        dict(engine="verus", unit="lazy", function="force::not_thunk", name="C17/lazy/force_not_thunk", source="vm/src/lazy.rs::force (arm `None => match *lazy_lock`)",
             clause="forced by the thread that is evaluating it => an error at once (loop), whichever thread created the value; forced by another thread => waits on the channel registered in the value, earlier registrations are kept; already computed => that value, state untouched"),
        dict(engine="verus", unit="lazy", function="force::thunk_start", name="C17/lazy/force_thunk_start", source="vm/src/lazy.rs::force (arm `Some(value) =>`, the async block replaced by a stand-in)",
             clause="before the computation starts the value is marked as being evaluated by the forcing thread, with no waiter: no later force finds the thunk again (at most one evaluation)"),
        dict(engine="verus", unit="lazy", function="force::thunk_succeeded", name="C17/lazy/force_thunk_succeeded", source="vm/src/lazy.rs::force (arm: the computation succeeded)",
             clause="a successful computation stores its value (a copy the lazy value's own thread may hold) and the state leaves `being evaluated` for good, so every later force returns that same value"),
        dict(engine="verus", unit="lazy", function="Lazy::deep_clone(C17)", name="C17/lazy/Lazy_deep_clone_never_copies_blackhole", source="vm/src/lazy.rs::<Lazy as Userdata>::deep_clone",
             clause="a lazy value that is being evaluated is refused by deep_clone; a copy is never in the being-evaluated state (nobody would complete it: every force on it would hang)"),
        v("reference", "lemma_reference_last_write", "for every history of set/get: the cell holds (a copy of) the most recently stored value", "lemma over the contracts"),
    ]
