PROPERTY = "C05"
EXPLANATION = "probe only"
def obligations(tier):
    return [dict(engine="kani", crate="gluon_vm", module="vm/src/gc.rs", harness="c05__sweep__two_objects", name="C05/sweep/two_objects", clause="probe", functions=[], complete=False, bound="2 objects", timeout=900)]
