PROPERTY = "C08"
EXPLANATION = ("Thin partial claim: the built-in operator fixity table (real OpTable::get on an empty user table, concrete enumeration of the "
               "documented spellings) and the span algebra every parser action and 'spans delimit the text' statement is built from "
               "(Span::new/to/between/until/with_*/subspan/from_offset, Location::shift; full u32 domain). The shift/reduce step and shrink_hidden_spans are under Verus contracts; the "
               "layout algorithm, the tokenizer and the grammar are NOT under contract.")
ASSUMPTIONS = [
    "OpTable::get: the built-in table is checked on an empty user map; precedence of user declarations over built-ins is only checked structurally in Verus (C08/infix/OpTable_get): a one-entry FnvMap lookup with a concrete key gave no CBMC result in 600 s, and std HashMap::get could not be stubbed (signature matching failed on the allocator parameter)",
    "reparse step: `make_op` is an uninterpreted constructor, trees and operator occurrences are opaque; at least two operands are on the stack when an operator is (algorithm invariant, assumed)",
    "spans are well formed (start <= end), the invariant Span::new establishes",
    "shrink unit: the AST is projected on spans and last sub-expressions (arena references are boxes, unread payloads opaque); slice patterns are desugared to length tests (R-slice); Span::new's ordering contract is assumed there and proved by the Kani harness C08/span/new_contract; `visible_end` (which sub-expression ends each kind of expression) is my specification, taken from the grammar",
    "termination not proved by Kani",
]
NOT_UNDER_CONTRACT = ["parser/src/infix.rs reparse as a whole (the per-operator shift/reduce block IS under contract; and so is the final fold; the token loop that connects them, the Infixes iterator and error recovery are not: no grouping theorem for the whole function)", "parser/src/layout.rs layout_next_token other than its arm for an explicit `in` closing a let/type/rec context (Contexts::last/last_mut: std semantics assumed; check_unindentation_limit assumed not to change the stack)",
                      "parser/src/token.rs tokenizer other than block_comment and take_until (the one-byte primitives bump / lookahead are assumed: consume / peek one byte; the string operations of the doc-comment branch are opaque)",
                      "parser/src/grammar.lalrpop other than the fold closure of the BlockExpr action (arena allocation = boxing, pos::spanned2 = Span::new ordering)", "where shrink_hidden_spans is applied (grammar actions)"]
POS = "base/src/pos.rs"
INFIX = "parser/src/infix.rs"


def k(crate, module, h, clause, functions, **kw):
    d = dict(engine="kani", crate=crate, module=module, harness=h, name="C08/" + h[len("c08__"):].replace("__", "/"), clause=clause, functions=functions, complete=True)
    d.update(kw)
    return d


def obligations(tier):
    S = POS + "::Span::"
    ops = [("int_mul", "#Int* is 7 left"), ("int_div", "#Int/ is 7 left"), ("int_add", "#Int+ is 6 left"), ("int_sub", "#Int- is 6 left"), ("int_eq", "#Int== is 4 left"),
           ("int_lt", "#Int< is 4 left"), ("float_mul", "#Float* is 7 left"), ("float_add", "#Float+ is 6 left"), ("byte_lt", "#Byte< is 4 left"), ("char_eq", "#Char== is 4 left"),
           ("and", "&& is 3 right"), ("or", "|| is 2 right")]
    out = [
        k("gluon_base", POS, "c08__span__new_contract", "new orders its ends and keeps the set {start,end}", [S + "new"]),
        k("gluon_base", POS, "c08__span__with_start_with_end", "with_start/with_end replace one end and stay ordered (over new's contract)", [S + "with_start", S + "with_end"]),
        k("gluon_base", POS, "c08__span__to_is_least_upper_bound", "to() is the least span containing both arguments", [S + "to", S + "contains"]),
        k("gluon_base", POS, "c08__span__between_until", "between = [a.end, b.start], until = [a.start, b.start] for a before b", [S + "between", S + "until"]),
        k("gluon_base", POS, "c08__span__from_offset", "from_offset(s, n) = [s, s+n]", [S + "from_offset"]),
        k("gluon_base", POS, "c08__span__subspan", "subspan(b, e) = [start+b, start+e] inside self when b <= e and start+e <= end", [S + "subspan"]),
        k("gluon_base", POS, "c08__span__subspan_rejects_out_of_range", "subspan panics when its documented precondition fails (precondition is tight)", [S + "subspan"]),
        k("gluon_base", POS, "c08__location__shift", "shift advances absolute by 1; newline: line+1, column 1; else column+1", [POS + "::Location::shift"]),
        k("gluon_parser", INFIX, "c08__builtin_ops__plain_names_have_no_builtin_fixity", "names without '#' other than && and || have no built-in fixity", [INFIX + "::OpTable::get"]),
        k("gluon_parser", INFIX, "c08__opmeta__new_keeps_fields", "OpMeta::new keeps precedence and fixity", [INFIX + "::OpMeta::new"]),
    ]
    out += [dict(engine="verus", unit="infix", function="reparse::step", name="C08/infix/reparse_step", source=INFIX + "::reparse (shift/reduce block)",
                 clause="the shift/reduce step of the operator-precedence re-parse: lower precedence or equal+both-left => reduce (group left), higher or equal+both-right => shift (group right), equal precedence with different associativity => ConflictingFixities error; stacks change exactly accordingly"),
            dict(engine="verus", unit="infix", function="OpTable::get", name="C08/infix/OpTable_get", source=INFIX + "::OpTable::get",
                 clause="structure check: user table consulted first, built-in table (closure body, named by an env helper) only when the name is not declared")]
    out += [dict(engine="verus", unit="infix", function="reparse::final_fold", name="C08/infix/reparse_final_fold", source=INFIX + "::reparse (statements after the token loop)",
                 clause="operators still pending when the input is exhausted group to the right, in order, over all operands (nothing dropped, duplicated or swapped); the closing length assertion and the unwraps cannot fire (inductive invariant + lemma)")]
    out += [dict(engine="verus", unit="token", function="Tokenizer::take_until", name="C08/token/Tokenizer_take_until", source="parser/src/token.rs::Tokenizer::take_until",
                 clause="consumes bytes up to (excluding) the first byte satisfying the test, or everything if there is none; the input is unchanged")]
    out += [dict(engine="verus", unit="token", function="Tokenizer::block_comment", name="C08/token/Tokenizer_block_comment", source="parser/src/token.rs::Tokenizer::block_comment",
                 clause="a block comment ends at the first `*/` behind its opening `/*` (whatever precedes the slash) and the tokenizer continues right behind it; end-of-file error only if there is no `*/`")]
    out += [dict(engine="verus", unit="layout", function=f, name="C08/layout/" + f.replace("::", "_"), source="parser/src/layout.rs::" + f, clause=c) for f, c in [
        ("Offside::new", "field-wise constructor"),
        ("Contexts::push", "pushes the context unless the indentation check refuses; nothing else changes"),
        ("Contexts::pop", "pops the innermost context"),
        ("Layout::layout_token", "a layout token takes the position of the token that triggered it, which is queued again as the next token"),
        ("layout_next_token::block_separator", "a token at the column of a block that already holds an expression: a separator is emitted in front of it, the token is queued again, and the block's separator flag is cleared (no second separator for the same token)"),
        ("layout_next_token::implicit_in", "implicit `in`: the binding's context is popped, `in` is emitted at the token that ended the binding, the body block is opened at the location of the binding with emit_semi = false, the enclosing block's separator flag is cleared, an enclosing rec marker is popped, the token is queued again followed by an OpenBlock"),
        ("layout_next_token::top_level_block", "first token of the input: an implicit block at that token's position is opened (context pushed, OpenBlock emitted in front of the token, token queued again)"),
        ("layout_next_token::close_block", "a CloseBlock closing the popped block context is passed on unchanged and clears the separator flag of the enclosing block"),
        ("layout_next_token::implicit_block_close", "a closing token meeting an open implicit block: a CloseBlock is emitted at its position, the token is queued again, the context stack is untouched"),
        ("layout_next_token::explicit_in", "explicit `in` closing a let/type/rec context: the body block is opened at the location of the ENCLOSING context with emit_semi = false, the enclosing block's separator flag is cleared, an enclosing rec marker is popped, an OpenBlock token with the span of `in` is queued and `in` is passed on"),
    ]]
    out += [dict(engine="verus", unit="shrink", function="grammar::BlockExpr::fold_step", name="C08/parser/block_fold_step", source="parser/src/grammar.lalrpop::BlockExpr (the fold closure of the semantic action)",
                 clause="a block `e; rest` becomes Do { bound: e, body: rest } whose span runs from the start of e to the end of rest")]
    out += [dict(engine="verus", unit="shrink", function="shrink_hidden_spans", name="C08/parser/shrink_hidden_spans", source="parser/src/lib.rs::shrink_hidden_spans",
                 clause="span shrinking and block flattening against a specification of where each expression kind visibly ends: a singleton block is its expression; an expression that ends in a sub-expression keeps its start and ends where that sub-expression ends; all other nodes are untouched")]
    out += [k("gluon_parser", INFIX, "c08__builtin_ops__" + n, "built-in " + c, [INFIX + "::OpTable::get"]) for n, c in ops]
    return out
