"""C01: evaluation matches the reference semantics -- leaf operations of the VM.
 * stack unit (Verus): Stack/StackFrame primitives against a Seq<Value> view
 * compiler unit (Verus): Instruction::adjust == documented stack effect; ProgramCounter index safety
 * generated Kani harnesses: the 18 arithmetic/comparison arms of the interpreter (expression text taken from the
   `match instr` arms of thread.rs) against the mathematical reference; the primitive-name -> opcode table of
   compile_primitive (arm text taken from compiler.rs)."""
import os, re, sys
sys.path.insert(0, os.path.join(os.path.dirname(os.path.abspath(__file__)), "..", "lib"))
from common import *
import rustscan

PROPERTY = "C01"
THREAD = "vm/src/thread.rs"
COMPILER = "vm/src/compiler.rs"
GEN_T = os.path.join(CACHE, "gen", "kani", "vm", "thread_gen.rs")
GEN_C = os.path.join(CACHE, "gen", "kani", "vm", "compiler_gen.rs")

EXPLANATION = ("The recursive layers (translate, compile_, execute_) are out of reach; under contract are the leaf operations every "
               "program's meaning bottoms out in: stack primitives (slide/pop/remove_range/insert_slice ... against a sequence view), "
               "the stack effect table, program-counter safety, the 18 arithmetic/comparison interpreter arms against Z / IEEE, and the "
               "operator-name -> opcode table.")
ASSUMPTIONS = [
    "interpreter arms are verified as wrapped functions (R-arm): the arm's statements are the repository's, the dispatch `match instr` and the surrounding loop are not under contract; `alloc(..)` is assumed to build a data value whose fields are the given slice in order",
    "short-circuit blocks: Compiler::compile on the operands is ASSUMED to append code only, leave one value on the static stack and keep functions below 2^30 instructions; a ghost log records the tail flag it is called with",
    "binop: operand decoding (Getable::from_value) is an uninterpreted function of the stack value; binop_f64 is not extracted (its closure has no block body); the closures of binop_int/byte/bool get their specification by R-ghost and `Ok(V(f(l,r).ok_or_else(..)?))` is desugared to a match (R-map)",
    "MultiplyInt: reference is i64::checked_mul of core (64x64 multiplier equivalence against a 128-bit product is intractable for SAT); MultiplyByte is checked against the 16-bit product",
    "DivideInt: reference is the language's truncating `/` on i64 where defined (a 128-bit divider is intractable for SAT); DivideByte is checked against the 32-bit quotient",
    "float arms: reference is the IEEE operator of the Rust language (bit equality, NaN = NaN)",
    "termination not proved by Kani",
]
NOT_UNDER_CONTRACT = ["Translator::translate_ / PatternTranslator (AST -> core)", "Compiler::compile_ slot allocation and jump patching (except the && / || blocks)", "upvalue capture by enter_closure",
                      "the Closure/Function arms of do_call and enter_closure/enter_extern (the continuation of the call protocol is opaque)", "check/src/rename.rs", "check/src/implicits.rs", "parser/src/infix.rs reparse"]

# instruction -> (operand kind, reference operator)
REF = {
    "AddInt": ("int", "+"), "SubtractInt": ("int", "-"), "MultiplyInt": ("int", "*"), "DivideInt": ("int", "/"), "IntLT": ("int", "<"), "IntEQ": ("int", "=="),
    "AddByte": ("byte", "+"), "SubtractByte": ("byte", "-"), "MultiplyByte": ("byte", "*"), "DivideByte": ("byte", "/"), "ByteLT": ("byte", "<"), "ByteEQ": ("byte", "=="),
    "AddFloat": ("f64", "+"), "SubtractFloat": ("f64", "-"), "MultiplyFloat": ("f64", "*"), "DivideFloat": ("f64", "/"), "FloatLT": ("f64", "<"), "FloatEQ": ("f64", "=="),
}
HELPER = {"int": "binop_int", "byte": "binop_byte", "f64": "binop_f64"}
# documented operator spellings (book: "#Int+", ... ; chars compare as ints)
OPS = {"#Int+": "AddInt", "#Int-": "SubtractInt", "#Int*": "MultiplyInt", "#Int/": "DivideInt", "#Int<": "IntLT", "#Int==": "IntEQ",
       "#Char<": "IntLT", "#Char==": "IntEQ",
       "#Byte+": "AddByte", "#Byte-": "SubtractByte", "#Byte*": "MultiplyByte", "#Byte/": "DivideByte", "#Byte<": "ByteLT", "#Byte==": "ByteEQ",
       "#Float+": "AddFloat", "#Float-": "SubtractFloat", "#Float*": "MultiplyFloat", "#Float/": "DivideFloat", "#Float<": "FloatLT", "#Float==": "FloatEQ"}


def parse_arms():
    src = read(os.path.join(REPO, THREAD))
    try:
        f = rustscan.find_fn(src, "execute_")
    except rustscan.ScanError as e:
        raise Broken("lost anchor execute_ in %s: %s" % (THREAD, e))
    body = rustscan.strip_comments(f.body)
    arms = {}
    for m in re.finditer(r"\b(\w+)\s*=>\s*(binop_\w+)\(\s*self\.thread\s*,\s*&mut self\.stack\s*,\s*(.+?)\)\?\s*,", body, re.S):
        arms[m.group(1)] = (m.group(2), " ".join(m.group(3).split()))
    return arms


def parse_prim_table():
    src = read(os.path.join(REPO, COMPILER))
    try:
        f = rustscan.find_fn(src, "compile_primitive")
    except rustscan.ScanError as e:
        raise Broken("lost anchor compile_primitive: %s" % e)
    body = rustscan.strip_comments(f.body)
    m = re.search(r"let instr = match self\.symbols\.string\(op\)\s*\{(.*?)\n\s*_ =>", body, re.S)
    if not m:
        raise Broken("operator table of compile_primitive not found")
    arms = m.group(1).strip()
    if not re.fullmatch(r"(\s*\"[^\"]+\"(\s*\|\s*\"[^\"]+\")*\s*=>\s*\w+\s*,)+", arms):
        raise Broken("operator table has an arm that is not `\"name\" [| \"name\"] => Opcode,`")
    return arms


def generate(tier):
    arms = parse_arms()
    out = ["// GENERATED by /verif/props/c01.py from the `match instr` arms of vm/src/thread.rs execute_ -- do not edit", "#![allow(unused, non_snake_case)]", "use super::*;", ""]
    obs = []
    for ins, (kind, op) in REF.items():
        if ins not in arms:
            raise Broken("interpreter arm for %s not found in execute_ (vacuity guard)" % ins)
        helper, expr = arms[ins]
        is_cmp = op in ("<", "==")
        want = "binop_bool" if is_cmp else HELPER[kind]
        if helper != want:
            raise Broken("arm %s uses %s, expected %s: contract table needs maintenance" % (ins, helper, want))
        ty = {"int": "VmInt", "byte": "u8", "f64": "f64"}[kind]
        b = "    let l: %s = kani::any();\n    let r: %s = kani::any();\n    let f = %s;\n" % (ty, ty, expr)
        if kind == "f64":
            if is_cmp:
                b += "    let got: bool = f(l, r);\n    assert!(got == (l %s r));\n" % op
            else:
                b += "    let got: f64 = f(l, r);\n    let want: f64 = l %s r;\n    assert!(got.to_bits() == want.to_bits() || (got.is_nan() && want.is_nan()));\n" % op
        elif is_cmp:
            b += "    let got: bool = f(l, r);\n    assert!(got == ((l as i128) %s (r as i128)));\n" % op
        else:
            wide, lo, hi = ("i128", "i64::MIN as i128", "i64::MAX as i128") if kind == "int" else ("i32", "0", "255")
            b += "    let got: Option<%s> = f(l, r);\n" % ty
            if kind == "int" and op == "*":
                b += "    // reference: core's checked_mul (see assumptions)\n    assert!(got == l.checked_mul(r));\n    if l == 0 || r == 0 { assert!(got == Some(0)); }\n    if r == 1 { assert!(got == Some(l)); }\n    if l == 1 { assert!(got == Some(r)); }\n    if l == -1 { assert!(got == if r == i64::MIN { None } else { Some(-r) }); }\n"
            elif op == "/" and kind == "int":
                # a 128-bit divider is intractable for SAT; reference = the language's truncating `/` on i64 where it is defined
                b += "    if r == 0 {\n        assert!(got.is_none()); // division by zero is a runtime failure\n    } else if l == i64::MIN && r == -1 {\n        assert!(got.is_none()); // the one quotient that does not fit\n    } else {\n        assert!(got == Some(l / r));\n    }\n"
            elif op == "/":
                b += "    if r == 0 {\n        assert!(got.is_none()); // division by zero is a runtime failure\n    } else {\n        let w = (l as %s) / (r as %s); // truncating division in Z\n        assert!(got == if w >= %s && w <= %s { Some(w as %s) } else { None });\n    }\n" % (wide, wide, lo, hi, ty)
            else:
                b += "    let w = (l as %s) %s (r as %s); // exact in the wide type\n    assert!(got == if w >= %s && w <= %s { Some(w as %s) } else { None }); // None = overflow = runtime failure\n" % (wide, op, wide, lo, hi, ty)
        b += "    kani::cover!(true); // vacuity guard\n"
        h = "c01__arith__%s" % ins
        solver = "#[kani::solver(cvc5)]\n" if (op == "/" and kind != "byte") else ""   # float division: cadical times out, cvc5 takes seconds (probed)
        out.append("#[kani::proof]\n%spub(super) fn %s() {\n%s}\n" % (solver, h, b))
        obs.append(dict(engine="kani", crate="gluon_vm", module=THREAD, modname="verif_kani_gen", harness=h, name="C01/arith/%s" % ins, complete=True,
                        clause="interpreter arm `%s => %s(.., %s)` computes %s %s on %s exactly; None exactly on overflow / division by zero" % (ins, helper, expr, "l", op, kind),
                        functions=["%s::execute_ arm %s -> %s" % (THREAD, ins, expr)], timeout=1500, solver="cvc5" if solver else "cadical"))
    write_if_changed(GEN_T, "\n".join(out))
    # operator-name table
    arms_text = parse_prim_table()
    o2 = ["// GENERATED by /verif/props/c01.py from compile_primitive's operator table in vm/src/compiler.rs -- do not edit", "#![allow(unused)]", "use super::*;", "",
          "/// the arms below are the source text of `let instr = match self.symbols.string(op) { .. }`",
          "fn prim_table(op: &str) -> Option<Instruction> {\n    Some(match op {\n" + "\n".join("        " + l.strip() for l in arms_text.splitlines()) + "\n        _ => return None,\n    })\n}\n",
          "#[kani::proof]\n#[kani::unwind(10)]\npub(super) fn c01__optable__names_map_to_their_opcodes() {"]
    for name, ins in OPS.items():
        o2.append("    assert!(prim_table(%s) == Some(%s));" % (json_str(name), ins))
    o2.append("    assert!(prim_table(\"+\").is_none());\n    assert!(prim_table(\"#Int%\").is_none());\n}\n")
    write_if_changed(GEN_C, "\n".join(o2))
    obs.append(dict(engine="kani", crate="gluon_vm", module=COMPILER, modname="verif_kani_gen", harness="c01__optable__names_map_to_their_opcodes", name="C01/optable/names_map_to_their_opcodes",
                    complete=True, clause="every documented built-in operator spelling compiles to its own opcode (finite table, concrete enumeration)", functions=[COMPILER + "::compile_primitive operator table"], timeout=1500))
    generate.cache = obs
    return obs


def json_str(s):
    return '"' + s.replace("\\", "\\\\").replace('"', '\\"') + '"'


def v(unit, fn, clause, source=None):
    return dict(engine="verus", unit=unit, function=fn, name="C01/%s/%s" % (unit, fn.replace("::", "_")), clause=clause, source=source or "vm/src/stack.rs::" + fn)


STACK = [
    ("Stack::len", "len == number of values"), ("Stack::index_", "stack[i] is the i-th value"),
    ("Stack::assert_pop", "no panic when the current frame owns the values to pop"),
    ("Stack::pop", "returns the top value; values' = values without the top; frames untouched"),
    ("Stack::pop_many", "values' = values[..len-n]; frames untouched"), ("Stack::clear", "values' empty"),
    ("Stack::copy_value", "values' = values[to := values[from]]"),
    ("Stack::slide", "values' = values[..len-1-n] ++ [top]: the top survives, exactly the n below it go, nothing else moves"),
    ("Stack::get_variant", "Some(values[i]) iff i < len"), ("Stack::last", "Some(top) for a non-empty stack"),
    ("Stack::remove_range", "values' = values[..from] ++ values[to..]"),
    ("StackFrame::offset", "frame offset"), ("StackFrame::len", "len - offset == length of the frame view"), ("StackFrame::top", "top value"),
    ("StackFrame::assert_pop", "no panic when the frame owns the values above its locked arguments"),
    ("StackFrame::pop", "as Stack::pop, cached frame unchanged"), ("StackFrame::pop_many", "as Stack::pop_many"),
    ("StackFrame::slide", "as Stack::slide"), ("StackFrame::get_variant", "frame-relative lookup: Some(view[i]) iff i < frame len"),
    ("StackFrame::insert_slice", "view' = view[..i] ++ xs ++ view[i..]; values below the frame untouched"),
    ("StackFrame::remove_range", "view' = view[..from] ++ view[to..]; values below the frame untouched"),
]


def obligations(tier):
    if not hasattr(generate, "cache"):
        generate(tier)
    obs = list(generate.cache)
    obs += [v("stack", f, c) for f, c in STACK]
    T = "vm/src/thread.rs::execute_ arm "
    obs += [
        v("stack", "arm::Pop", "run-time effect of Pop(n) == its static effect -n: exactly the top n values go", T + "Pop"),
        v("stack", "arm::Slide", "run-time effect of Slide(n) == -n: the top value survives, exactly the n below it go", T + "Slide"),
        v("stack", "arm::PushInt", "pushes exactly the literal (+1)", T + "PushInt"),
        v("stack", "arm::PushByte", "pushes exactly the literal (+1)", T + "PushByte"),
        v("stack", "arm::PushFloat", "pushes one value (+1), nothing else moves", T + "PushFloat"),
        v("stack", "arm::ConstructVariant", "effect 1 - args; the new value has exactly the top `args` values as fields, in stack (= source) order; values below untouched", T + "ConstructVariant"),
        v("stack", "arm::ConstructRecord", "effect 1 - args; the record's field values are exactly the top `args` values in order; the empty record is the unit tag", T + "ConstructRecord"),
        v("stack", "arm::ConstructArray", "effect 1 - args; the array's elements are exactly the top `args` values in order", T + "ConstructArray"),
        v("stack", "arm::MakeClosure", "run-time effect 1 - upvars; the closure captures exactly the top `upvars` values in order", T + "MakeClosure"),
        v("stack", "ExecuteContext::call_function_with_upvars", "the call protocol: exact application enters the callee on the stack as it is; partial application replaces function+arguments by ONE value holding exactly these arguments in order; over-application packs the LAST (args - required) arguments in order into one value parked directly below the function and enters the callee with the excess flag; enclosing frames untouched", "vm/src/thread.rs::ExecuteContext::call_function_with_upvars"),
        v("stack", "do_call::PartialApplication", "calling a partial application = calling its function with the stored arguments first, then the new ones, in order (then the protocol above)", "vm/src/thread.rs::do_call arm PartialApplication"),
        v("stack", "ExecuteContext::exit_scope", "leaving a scope pops exactly the top frame (never a locked one) and makes the frame below current, values untouched", "vm/src/thread.rs::ExecuteContext::exit_scope"),
        v("stack", "execute_::return", "function return: the function value and everything the callee had on the stack are replaced by the result; with excess arguments the parked record is consumed too and the RESULT is called with exactly its fields in order", "vm/src/thread.rs::execute_ (statements after the instruction loop)"),
        v("stack", "arm::TailCall", "a tail call behaves as return-then-call: the caller's slot receives the new function and arguments (plus pending excess arguments, in order)", T + "TailCall"),
        v("stack", "arm::Split", "matching on a constructor: the object on top is replaced by all its fields in order (none for a field-less variant)", T + "Split"),
        v("stack", "arm::GetOffset", "GetOffset(i) replaces the object on top by its i-th field (positional field access; effect 0)", T + "GetOffset"),
        v("stack", "arm::Push", "variable access: Push(i) pushes a copy of slot i of the CURRENT frame (+1); an out-of-range slot is an error value", T + "Push"),
        v("stack", "StackFrame::deref", "a frame dereferences to exactly its own slots", "vm/src/stack.rs::<StackFrame as Deref>::deref"),
        v("stack", "binop", "every binary instruction: LEFT operand = the value below the top, RIGHT = the top; on success both are replaced by the single result of op(left, right); on failure (overflow, division by zero) the stack is left as it was", "vm/src/thread.rs::binop"),
        v("stack", "binop_int", "integer instructions: Some(x) replaces the operands by the integer x; None (overflow, division by zero) is a runtime failure with the stack untouched -- never a wrapped value", "vm/src/thread.rs::binop_int"),
        v("stack", "binop_byte", "byte instructions: likewise", "vm/src/thread.rs::binop_byte"),
        v("stack", "binop_bool", "comparisons never fail and replace their operands by True (tag 1) exactly when the relation holds, else False (tag 0)", "vm/src/thread.rs::binop_bool"),
        v("stack", "StackFrame::index_from", "frame[start..] is the frame view from start", "vm/src/stack.rs::<StackFrame as Index<RangeFrom<VmIndex>>>::index"),
    ]
    obs += [
        v("compiler", "Instruction::adjust", "adjust(i) == documented stack effect of i (operands <= i32::MAX)", "vm/src/types.rs::Instruction::adjust"),
        dict(engine="verus", unit="binder", function="Binder::into_expr", name="C01/core/Binder_into_expr", source="vm/src/core/mod.rs::Binder::into_expr",
             clause="the bindings collected for a record update / constructor application become nested lets in binding order: the first binding is the outermost let, so the parts are evaluated left to right as the strict semantics says (loop invariant against the specification nest_lets)"),
        dict(engine="verus", unit="binder", function="Translator::translate_::record_base_needs_binding", name="C01/core/record_base_needs_binding", source="vm/src/core/mod.rs::Translator::translate_ (ast::Expr::Record arm, the closure computing needs_bindings)",
             clause="record update: the base is used in place only if it is a plain identifier; any other base expression is bound first so that fields and base are evaluated in source order"),
        dict(engine="verus", unit="binder", function="PatternTranslator::compile_constructor::complete", name="C01/core/compile_constructor_complete", source="vm/src/core/mod.rs::PatternTranslator::compile_constructor (the block computing `complete`)",
             clause="the default (fall-through) alternative of a compiled constructor match is left out only if every constructor of the closed variant type has its own group of equations"),
        dict(engine="verus", unit="binder", function="Binder::into_expr_ref", name="C01/core/Binder_into_expr_ref", source="vm/src/core/mod.rs::Binder::into_expr_ref",
             clause="same for the by-reference variant"),
        dict(engine="verus", unit="binder", function="PatternTranslator::translate::no_variables", name="C01/core/match_first_equation_wins", source="vm/src/core/mod.rs::PatternTranslator::translate (arm: no scrutinee variables left)",
             clause="base case of the match compilation: of the remaining (all matching) equations the first in source order supplies the result; the default only when none is left"),
        v("compiler", "compile_primitive::and", "`a && b`: a is compiled out of tail position, b inherits the tail position; code layout [a, CJump(L+3), False, Jump(end), b]: b runs only if a is True, otherwise the result is False", "vm/src/compiler.rs::compile_primitive (&& block)"),
        v("compiler", "compile_primitive::or", "`a || b`: a out of tail position, b inherits it; layout [a, CJump(T), b, Jump(end), T: True]: a True a skips b and yields True", "vm/src/compiler.rs::compile_primitive (|| block)"),
        v("compiler", "FunctionEnv::new_stack_var", "a new local denotes the top slot of the static stack (the value just computed); no other name moves; no code emitted", "vm/src/compiler.rs::FunctionEnv::new_stack_var"),
        v("compiler", "FunctionEnv::push_stack_var", "a value already on the run-time stack (pattern field, argument) gets the next slot and is accounted for", "vm/src/compiler.rs::FunctionEnv::push_stack_var"),
        v("compiler", "compile_::rec_value_fixup", "recursive value (`rec let ones = Cons 1 ones`): the placeholder becomes NewRecord/NewVariant with the constructor's own layout and field count, the constructor becomes CloseData on slot stack_start + i (the slot of the i-th binding of the group), nothing else in the function changes", "vm/src/compiler.rs::Compiler::compile_ (Expr::Let, Named::Recursive: the fix-up match)"),
        v("compiler", "ProgramCounter::new", "establishes index < len and last == Return", "vm/src/thread.rs::ProgramCounter::new"),
        v("compiler", "ProgramCounter::instruction", "the unchecked fetch is in bounds under the invariant", "vm/src/thread.rs::ProgramCounter::instruction"),
        v("compiler", "ProgramCounter::step", "stepping past a non-Return instruction keeps the invariant", "vm/src/thread.rs::ProgramCounter::step"),
        v("compiler", "ProgramCounter::jump", "jump to a checked index keeps the invariant", "vm/src/thread.rs::ProgramCounter::jump"),
    ]
    return obs
