PROPERTY = "C01"
EXPLANATION = "under construction"
def v(unit, fn, clause, source=None):
    return dict(engine="verus", unit=unit, function=fn, name="C01/%s/%s" % (unit, fn.replace("::", "_")), clause=clause, source=source or fn)
def obligations(tier):
    return [v("stack", f, "") for f in ["Stack::len","Stack::index_","Stack::assert_pop","Stack::pop","Stack::pop_many","Stack::clear","Stack::copy_value","Stack::slide","Stack::get_variant","Stack::last","Stack::remove_range","StackFrame::offset","StackFrame::len","StackFrame::top","StackFrame::assert_pop","StackFrame::pop","StackFrame::pop_many","StackFrame::slide","StackFrame::get_variant","StackFrame::insert_slice","StackFrame::remove_range","StackFrame::exit_scope","StackFrame::add_new_frame"]]
