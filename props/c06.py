"""C06: scripts cannot crash the host -- primitive totality.
Generated obligations: the registration tables `record! { name => primitive!(N, [\"id\",] EXPR), .. }` of
load_int / load_byte / load_char / load_float / load_string in vm/src/primitives.rs are parsed from the working
tree on every run and one Kani harness per entry applies *the expression text found in the source* to symbolic
arguments (type-directed by inference through `varg()`), requiring no panic / overflow trap / UB."""
import os, re, sys, tomllib
sys.path.insert(0, os.path.join(os.path.dirname(os.path.abspath(__file__)), "..", "lib"))
from common import *
import rustscan, findings

PROPERTY = "C06"
PRIM = "vm/src/primitives.rs"
GEN = os.path.join(CACHE, "gen", "kani", "vm", "primitives_gen.rs")
TABLES = ["load_int", "load_byte", "load_char", "load_float", "load_string"]

EXPLANATION = ("A Rust panic inside a primitive!() wrapper unwinds into an extern \"C\" frame and aborts the host. For every scalar "
               "primitive registered in load_int/load_byte/load_char/load_float/load_string the registered expression itself is run by "
               "Kani on fully symbolic arguments and must not panic, trap on overflow or exhibit UB; string arguments are bounded (<= 2 chars). "
               "Plus Verus contracts on StackFrame::exit_scope (frame reset never pops a locked frame).")
ASSUMPTIONS = [
    "io unit: Vec::with_capacity is given its documented contract (panics if the capacity exceeds isize::MAX bytes); File read/write are assumed panic-free; the Mutex<Option<File>> is modelled by R-lock + the expansion of the local `unwrap_file!` macro",
    "random unit: rand's `random_range` is given its documented contract (panics iff the range is empty; result in range) as an assumed dependency contract",
    "debug-profile semantics (overflow checks on), the profile the pinned test suite is built with",
    "alloc::fmt::format stubbed to return an empty String in harnesses whose error path formats a message (format! is intractable for CBMC)",
    "float primitives backed by libm intrinsics that CBMC does not model are listed under skipped, not verified",
    "userdata/regex/most IO primitives and unpack_and_call are not under contract; of call_thunk_top only the error closure, of return_future only the statements after the future is ready (toplevel unit: Context/Stack projected on frame list + lock flag, reset_stack's contract assumed there and proved in the stack unit)",
    "termination not proved by Kani",
]
NOT_UNDER_CONTRACT = ["primitives taking arrays, userdata, IO, regex, random", "api::function::unpack_and_call and the macro-generated Function::call / call_first (same text as call_any_first, which IS under contract), the Pending path of call_async", "the callers of call_thunk_top (which entry point a host API uses)", "memory reclaim after failure"]

# entries whose callee CBMC cannot model (libm / float formatting / parsing loops); reported as skipped
SKIP = {
    "load_float": {"sin", "cos", "tan", "acos", "atan", "atan2", "sin_cos", "exp_m1", "ln_1p", "sinh", "cosh", "tanh", "acosh", "atanh",
                   "exp", "exp2", "ln", "log2", "log10", "cbrt", "hypot", "powf", "powi", "parse", "rem_euclid", "to_degrees", "to_radians", "sqrt", "mul_add", "recip"},
    # append/append_char/from_char/from_utf8/as_bytes need a live Thread / GC array; the pattern searchers
    # (two-way string matcher) time out in CBMC even on <= 2-char strings (probed, 300 s)
    "load_string": {"append", "append_char", "from_char", "from_utf8", "as_bytes",
                    "contains", "find", "rfind", "trim_start_matches", "trim_end_matches"},
    # unicode property tables (skip-search over large static arrays) time out in CBMC (probed, 300 s)
    "load_char": {"is_alphabetic", "is_alphanumeric", "is_numeric"},
    "load_int": set(), "load_byte": set(),
}
# entries with &str arguments: bounded (string length), everything else complete
STR_BOUNDED = {"from_str_radix", "parse", "len", "is_empty", "is_char_boundary", "split_at", "contains", "starts_with", "ends_with", "find", "rfind",
               "trim", "trim_start", "trim_start_matches", "trim_end", "trim_end_matches", "slice", "char_at"}


def parse_tables():
    src = read(os.path.join(REPO, PRIM))
    masked = rustscan.mask(src)
    out = []
    for t in TABLES:
        try:
            f = rustscan.find_fn(src, t, masked=masked)
        except rustscan.ScanError as e:
            raise Broken("lost anchor %s in %s: %s" % (t, PRIM, e))
        body_m = masked[f.body_open:f.body_close]
        body = src[f.body_open:f.body_close]
        m = re.search(r"record!\s*\{", body_m)
        if not m:
            raise Broken("no record! table in %s" % t)
        ob = m.end() - 1
        cb = rustscan.match_close(body_m, ob)
        tab, tab_m = body[ob + 1:cb], body_m[ob + 1:cb]
        # split entries at depth-0 commas
        depth, start, entries = 0, 0, []
        for i, ch in enumerate(tab_m):
            if ch in "([{":
                depth += 1
            elif ch in ")]}":
                depth -= 1
            elif ch == "," and depth == 0:
                entries.append(tab[start:i])
                start = i + 1
        entries.append(tab[start:])
        for e in entries:
            e = e.strip()
            if not e:
                continue
            mm = re.match(r"(?:\((\w+)\s+\"[^\"]*\"\)|(\w+))\s*=>\s*(.*)$", e, re.S)
            if not mm:
                if e.startswith("type "):
                    continue
                raise Broken("unclassifiable table entry in %s: %r" % (t, e[:80]))
            name = mm.group(1) or mm.group(2)
            rhs = mm.group(3).strip()
            pm = re.match(r"primitive!\s*\(\s*(\d+)\s*,\s*(?:\"[^\"]*\"\s*,\s*)?(.*)\)\s*$", rhs, re.S)
            if not pm:
                out.append(dict(table=t, name=name, kind="const", expr=rhs))
                continue
            out.append(dict(table=t, name=name, kind="prim", arity=int(pm.group(1)), expr=" ".join(pm.group(2).split()).rstrip(",").strip()))
    return out


HEADER = '''// GENERATED by /verif/props/c06.py from the registration tables of vm/src/primitives.rs -- do not edit.
// Child module of `primitives`: `std::int::prim::pow`, `int::rem`, `string::slice` ... resolve exactly as they do
// in the load_* functions (the file-local `mod std` shadows the real std here too).
#![allow(unused, non_snake_case)]
use super::*;
use ::core::mem;

pub(super) trait VArg { fn varg() -> Self; }
macro_rules! scalar { ($($t:ty),*) => { $(impl VArg for $t { fn varg() -> Self { kani::any() } })* } }
scalar!(i64, u64, u32, u8, usize, f64, char, bool, i32);
/// bounded symbolic string: every string of at most 2 Unicode scalar values (1..=4 bytes each), built by
/// encoding symbolic `char`s so that it is valid UTF-8 by construction
impl VArg for &'static str {
    fn varg() -> Self {
        let buf: &'static mut [u8; 8] = Box::leak(Box::new([0u8; 8]));
        let n: u8 = kani::any();
        kani::assume(n <= 2);
        let mut len = 0usize;
        if n >= 1 { let c: char = kani::any(); len += c.encode_utf8(&mut buf[len..]).len(); }
        if n >= 2 { let c: char = kani::any(); len += c.encode_utf8(&mut buf[len..]).len(); }
        unsafe { ::core::str::from_utf8_unchecked(&buf[..len]) }
    }
}
pub(super) fn varg<T: VArg>() -> T { T::varg() }

/// stand-in for alloc::fmt::format: error-message text is irrelevant to totality
pub(super) fn stub_format(_args: ::core::fmt::Arguments<'_>) -> ::std::string::String { ::std::string::String::new() }
'''


def excl_for(known, table, name):
    """known findings are keyed by primitive and argument class: `class=` is a Rust boolean expression over a0,a1,..
    that the harness assumes away; a companion harness shows the class still fails."""
    return [k for k in known if k["kind"] == "known" and k.get("prim") == "%s.%s" % (table[len("load_"):], name)]


def generate(tier):
    ents = parse_tables()
    known = findings.load("C06")
    out = [HEADER]
    obs = []
    skipped = []
    for e in ents:
        if e["kind"] != "prim":
            continue
        t, n = e["table"], e["name"]
        short = t[len("load_"):]
        if n in SKIP.get(t, ()):
            skipped.append("%s.%s (%s)" % (short, n, e["expr"]))
            continue
        h = "c06__prim__%s__%s" % (short, n)
        args = ["a%d" % i for i in range(e["arity"])]
        bounded = short == "string" or n in ("from_str_radix", "parse")
        ks = excl_for(known, t, n)
        lets = "".join("    let %s = varg();\n" % a for a in args)
        body = lets
        body += "    let f = %s;\n" % e["expr"]
        # first call fixes the argument types by inference; assumptions must come after the types are known,
        # so the excluded class is tested on copies before the call
        for k in ks:
            body += "    // known finding: %s\n" % k["text"]
        call = "f(%s)" % ", ".join(args)
        if ks:
            # need types for the closure params: declare a typed tuple through a helper call that is never executed
            body += "    if false { let _ = %s; }\n" % call.replace("f(", "f(").replace(")", ")")
            for k in ks:
                body += "    kani::assume(!(%s));\n" % k["class"]
        body += "    let r = %s;\n    mem::forget(r);\n    kani::cover!(true); // vacuity guard\n" % call
        attrs = "#[kani::proof]\n#[kani::stub(alloc::fmt::format, stub_format)]\n"
        if n == "pow":
            attrs += "#[kani::unwind(34)]\n"
            # Kani 0.68 does not model the overflow trap of core's `pow` (probed: 2i64.pow(64) verifies); the std
            # documentation says pow panics on overflow when overflow checks are on, i.e. exactly when checked_pow is None
            if e["expr"] in ("std::int::prim::pow", "std::byte::prim::pow"):
                body = body.replace("    let r = ", "    if false { let _ = %s; }\n    assert!(a0.checked_pow(a1).is_some(), \"pow overflows: debug-profile panic\");\n    let r = " % call)
        elif bounded:
            attrs += "#[kani::unwind(10)]\n"
        out.append("%spub(super) fn %s() {\n%s}\n" % (attrs, h, body))
        obs.append(dict(engine="kani", crate="gluon_vm", module=PRIM, modname="verif_kani_gen", harness=h,
                        name="C06/prim/%s/%s" % (short, n), complete=not bounded, bound="&str arguments: all strings of <= 2 Unicode scalar values; loops unwound 10x with unwinding assertions" if bounded else None,
                        clause="registered expression `%s` applied to all well-typed arguments does not panic / overflow-trap / UB%s" % (e["expr"], "".join(" [excluding known class: %s]" % k["class"] for k in ks)),
                        functions=["%s::%s -> %s" % (PRIM, t, e["expr"])], timeout=1500))
        for i, k in enumerate(ks):
            hk = "%s__known%d" % (h, i)
            body2 = lets + "    let f = %s;\n    if false { let _ = %s; }\n    kani::assume(%s);\n    let r = %s;\n    mem::forget(r);\n" % (e["expr"], call, k["class"], call)
            out.append("#[kani::proof]\n#[kani::should_panic]\n#[kani::stub(alloc::fmt::format, stub_format)]\n%spub(super) fn %s() {\n%s}\n" % ("#[kani::unwind(34)]\n" if n == "pow" else "", hk, body2))
            obs.append(dict(engine="kani", crate="gluon_vm", module=PRIM, modname="verif_kani_gen", harness=hk, known=k, complete=True,
                            name="C06/prim/%s/%s/known%d" % (short, n, i), clause="known finding still present: %s" % k["text"], functions=[], timeout=1500, is_known_probe=True))
    text = "\n".join(out)
    write_if_changed(GEN, text)
    generate.cache = (obs, skipped, len([e for e in ents if e["kind"] == "prim"]))
    return obs


def obligations(tier):
    if not hasattr(generate, "cache"):
        generate(tier)
    obs, skipped, total = generate.cache
    # the built-in arithmetic of the VM itself: the same generated harnesses as C01/arith (they apply the expression text of
    # each `execute_` arm to all operands); under C06 what matters is that none of them can panic inside the interpreter
    import c01
    # only checks that are NOT the value oracle of the C01 harness (its `assert!(got == ..)` lines) count here: a wrong
    # result is C01's business, a panic / trap / UB inside the arm is C06's
    arith = [dict(o, name=o["name"].replace("C01/arith/", "C06/vm_arith/"), only_checks=r"^(?!assertion failed: got)",
                  clause="interpreter arm never panics on any operands (overflow and division by zero are error values): " + o["clause"])
             for o in c01.obligations(tier) if o["name"].startswith("C01/arith/")]
    return list(obs) + arith + STATIC


def extra_evidence():
    obs, skipped, total = generate.cache
    return {"registration_table_entries": total, "harnessed": len([o for o in obs if not o.get("is_known_probe")]), "skipped_not_verified": skipped,
            "skipped_reason": "float libm intrinsics CBMC does not model; string pattern searchers and unicode property tables time out (probed, 300 s); primitives that need a live Thread/GC array"}


def v(unit, fn, clause, source):
    return dict(engine="verus", unit=unit, function=fn, name="C06/%s/%s" % (unit, fn.replace("::", "_")), clause=clause, source=source)


STATIC = [
    dict(engine="verus", unit="array", function="array::slice::validation", name="C06/array/slice_validation", source="vm/src/primitives.rs::array::slice (statements before the allocation)",
         clause="std.array slice: the allocation is only reached with start <= end <= len, so `end - start` cannot underflow and the copied range lies inside the array"),
    dict(engine="verus", unit="array", function="ValueArray::get", name="C06/array/ValueArray_get", source="vm/src/value.rs::ValueArray::get",
         clause="the unchecked element read behind array.index / iteration is reached only with index < len (the precondition of unsafe_get is proved at its 8 call sites; the element TYPE parameter chosen per representation is dropped by the rewrite and not checked); any other index is None"),
    dict(engine="verus", unit="array", function="array::append::repr", name="C06/array/append_repr", source="vm/src/primitives.rs::array::append (helper Append::repr)",
         clause="whenever one operand of append is non-empty the result carries the element representation of a non-empty operand (an `[]` literal has no proper representation; a wrongly tagged array aborts the host in the next `&[T]` argument unpacking)"),
    dict(engine="verus", unit="apipush", function="AsyncPushable::async_status_push", name="C06/api/async_status_push", source="vm/src/api/mod.rs::AsyncPushable::async_status_push",
         clause="a failing primitive always ends as Status::Error with exactly its message pushed; producing the error value cannot itself fail (limit-ignoring allocation, no unwrap of a fallible push)"),
    dict(engine="verus", unit="apipush", function="AsyncPushable::async_push(sync)", name="C06/api/sync_async_push", source="vm/src/api/mod.rs::<T: Pushable as AsyncPushable>::async_push",
         clause="the frame of a synchronous primitive is unlocked whether or not its result could be pushed, and the outcome of the push is what is reported"),
    dict(engine="verus", unit="apipush", function="RuntimeResult::vm_push", name="C06/api/RuntimeResult_vm_push", source="vm/src/api/mod.rs::<RuntimeResult as Pushable>::vm_push",
         clause="a primitive answering RuntimeResult::Panic yields Err (an error value for the host), never a pushed value, stack untouched"),
    dict(engine="verus", unit="apipush", function="IO::vm_push", name="C06/api/IO_vm_push", source="vm/src/api/mod.rs::<IO as Pushable>::vm_push",
         clause="an IO::Exception yields Err, stack untouched"),
    dict(engine="verus", unit="io", function="write_slice_file", name="C06/io/write_slice_file", source="src/std_lib/io.rs::write_slice_file",
         clause="std.io write_slice: for every (start, end) the slice expression buf[start..end] is in bounds or the call is refused with an error value"),
    dict(engine="verus", unit="io", function="read_file", name="C06/io/read_file", source="src/std_lib/io.rs::read_file",
         clause="std.io read_file: for every count (a negative Int arrives as a huge usize) the buffer allocation never hits Vec's documented capacity-overflow panic"),
    dict(engine="verus", unit="random", function="gen_int_range", name="C06/random/gen_int_range", source="src/std_lib/random.rs::gen_int_range",
         clause="std.random gen_int_range never reaches the documented panic of rand's random_range (empty range) for any pair of Ints"),
    dict(engine="verus", unit="toplevel", function="call_thunk_top::on_error", name="C06/thread/call_thunk_top_on_error", source="vm/src/thread.rs::ThreadInternal::call_thunk_top (body of the or_else closure)",
         clause="whatever kind of error ends a top-level evaluation, the frames above the level recorded before it are removed (or reset_stack itself gave up); the evaluation's own error is reported, a panic with its stack trace"),
    dict(engine="verus", unit="toplevel", function="execute_io_top::on_error", name="C06/thread/execute_io_top_on_error", source="vm/src/thread.rs::ThreadInternal::execute_io_top (body of the or_else closure)",
         clause="the same guarantee for the IO entry point: whatever kind of error ends a top-level IO action, the frames above the recorded level are removed"),
    dict(engine="verus", unit="modload", function="global_inner::evaluate_module", name="C06/query/global_inner_evaluates_with_reset", source="src/query.rs::global_inner (the statement evaluating the module's top-level expression)",
         clause="a module whose top-level evaluation fails leaves the VM stack as it found it (the evaluation goes through the entry point that resets the stack on error)"),
    dict(engine="verus", unit="toplevel", function="reset_after_error", name="C06/thread/reset_after_error", source="vm/src/thread.rs::reset_after_error",
         clause="the helper used by host calls: frames above the recorded level removed (or reset_stack gave up), the call's own error reported"),
    dict(engine="verus", unit="toplevel", function="call_any_first::after_call", name="C06/api/call_any_first_after_call", source="vm/src/api/function.rs::Function::call_any_first (from the call of the interpreter to the end; Function::call is generated from the same text by make_vm_function!)",
         clause="a failed call of a gluon function from the host is reported with the error that went through the stack reset at the level recorded before the call, never the raw error with the failed call's frames left behind"),
    dict(engine="verus", unit="toplevel", function="return_future::ready", name="C06/thread/return_future_ready", source="vm/src/thread.rs::Context::return_future (poll closure, statements after the future is ready)",
         clause="the frame of an asynchronous primitive is unlocked on every path, also when pushing its (error) result fails, so that the error propagates and the stack can be reset"),
    v("stack", "reset_stack", "resetting the stack after a failed evaluation removes exactly the frames above `level`, top first, never one below it, and touches nothing else of the frame list", "vm/src/thread.rs::reset_stack"),
    dict(engine="verus", unit="stack", function="reset_stack_values", name="C06/thread/reset_stack_values", source="vm/src/thread.rs::reset_stack",
         clause="the values that belonged to the removed frames are removed with them (the stack used by the failed run is reclaimed)"),
    v("stack", "StackFrame::exit_scope", "a locked extern frame is never popped (stack returned untouched); otherwise exactly the top frame is removed, values untouched", "vm/src/stack.rs::StackFrame::exit_scope"),
]
