// Kani harness module appended (scratch copy) to parser/src/infix.rs; child module of `infix`.
use super::*;

fn expect(table: &OpTable<String>, name: &str, prec: i32, fixity: Fixity) {
    match table.get(&name.to_string()) {
        Some(m) => assert!(m.precedence == prec && m.fixity == fixity),
        None => assert!(false),
    }
}

macro_rules! builtin {
    ($h:ident, $name:expr, $prec:expr, $fix:expr) => {
        #[kani::proof]
        #[kani::unwind(20)]
        fn $h() {
            // no user declarations: FnvMap::default() is the empty-table fast path
            let table: OpTable<String> = OpTable { operators: FnvMap::default() };
            expect(&table, $name, $prec, $fix);
            kani::cover!(true);
            core::mem::forget(table);
        }
    };
}

// documented built-in fixities (book/src/syntax-and-semantics.md; the `#Type op` primitives share the table)
builtin!(c08__builtin_ops__int_mul, "#Int*", 7, Fixity::Left);
builtin!(c08__builtin_ops__int_div, "#Int/", 7, Fixity::Left);
builtin!(c08__builtin_ops__int_add, "#Int+", 6, Fixity::Left);
builtin!(c08__builtin_ops__int_sub, "#Int-", 6, Fixity::Left);
builtin!(c08__builtin_ops__int_eq, "#Int==", 4, Fixity::Left);
builtin!(c08__builtin_ops__int_lt, "#Int<", 4, Fixity::Left);
builtin!(c08__builtin_ops__float_mul, "#Float*", 7, Fixity::Left);
builtin!(c08__builtin_ops__float_add, "#Float+", 6, Fixity::Left);
builtin!(c08__builtin_ops__byte_lt, "#Byte<", 4, Fixity::Left);
builtin!(c08__builtin_ops__char_eq, "#Char==", 4, Fixity::Left);
builtin!(c08__builtin_ops__and, "&&", 3, Fixity::Right);
builtin!(c08__builtin_ops__or, "||", 2, Fixity::Right);

#[kani::proof]
#[kani::unwind(20)]
fn c08__builtin_ops__plain_names_have_no_builtin_fixity() {
    let table: OpTable<String> = OpTable { operators: FnvMap::default() };
    assert!(table.get(&"+".to_string()).is_none());
    assert!(table.get(&"<>".to_string()).is_none());
    core::mem::forget(table);
    kani::cover!(true); // vacuity guard: the end of the harness is reachable under its assumptions
}

/// OpMeta ordering facts the resolver's shift/reduce decision is built from
#[kani::proof]
fn c08__opmeta__new_keeps_fields() {
    let p: i32 = kani::any();
    let m = OpMeta::new(p, Fixity::Right);
    assert!(m.precedence == p && m.fixity == Fixity::Right);
    kani::cover!(true); // vacuity guard: the end of the harness is reachable under its assumptions
}

