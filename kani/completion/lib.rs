// Kani harness module appended (scratch copy) to completion/src/lib.rs; child module of the crate root.
use super::*;

fn any_pos() -> BytePos {
    BytePos::from(kani::any::<u32>())
}
fn mk_span(a: u32, b: u32) -> Span<BytePos> {
    Span::new(BytePos::from(a), BytePos::from(b))
}
fn visitor(pos: BytePos, source_span: Span<BytePos>) -> FindVisitor<'static, 'static, ()> {
    FindVisitor { pos, on_found: (), found: MatchState::NotFound, enclosing_matches: Vec::new(), near_matches: Vec::new(), source_span }
}

/// N sibling spans as the parser produces them: each well formed, ordered, non-overlapping
fn siblings<const N: usize>() -> [(u32, u32); N] {
    let s: [(u32, u32); N] = kani::any();
    let mut i = 0;
    while i < N {
        kani::assume(s[i].0 <= s[i].1);
        if i > 0 {
            kani::assume(s[i - 1].1 <= s[i].0);
        }
        i += 1;
    }
    s
}

fn check_select<const N: usize>() {
    let sibs = siblings::<N>();
    let pos: u32 = kani::any();
    let v = visitor(BytePos::from(pos), mk_span(0, u32::MAX));
    let idx: [usize; N] = core::array::from_fn(|i| i);
    let (near, sel) = v.select_spanned(idx.iter().copied(), |i: &usize| mk_span(sibs[*i].0, sibs[*i].1));
    let contains = |i: usize| sibs[i].0 <= pos && pos <= sibs[i].1;
    match (near, sel) {
        // an exact hit: the selected sibling contains the cursor, and it is the first one that does
        (false, Some(i)) => {
            assert!(i < N && contains(i));
            let mut j = 0;
            while j < i {
                assert!(!contains(j));
                j += 1;
            }
        }
        (false, None) => assert!(false),
        // no hit: no sibling contains the cursor; the reported neighbour is the last sibling that ends before it
        (true, prev) => {
            let mut j = 0;
            while j < N {
                assert!(!contains(j));
                j += 1;
            }
            match prev {
                // only an empty sibling list has no neighbour
                None => assert!(N == 0),
                Some(i) => {
                    assert!(i < N);
                    if sibs[i].1 < pos {
                        // the neighbour is the last sibling before the cursor
                        if i + 1 < N {
                            assert!(pos < sibs[i + 1].0);
                        }
                    } else {
                        // the cursor precedes every sibling: the first one is reported as the neighbour
                        assert!(i == 0 && pos < sibs[0].0);
                    }
                }
            }
        }
    }
    kani::cover!(near, "vacuity guard: the no-hit outcome is reachable");
    kani::cover!(!near, "vacuity guard: the hit outcome is reachable");
    core::mem::forget(v);
}

#[kani::proof]
#[kani::unwind(3)]
fn c20__select__siblings_1() {
    check_select::<1>();
    kani::cover!(true); // vacuity guard: the end of the harness is reachable under its assumptions
}
#[kani::proof]
#[kani::unwind(4)]
fn c20__select__siblings_2() {
    check_select::<2>();
    kani::cover!(true); // vacuity guard: the end of the harness is reachable under its assumptions
}
#[kani::proof]
#[kani::unwind(5)]
fn c20__select__siblings_3() {
    check_select::<3>();
    kani::cover!(true); // vacuity guard: the end of the harness is reachable under its assumptions
}
#[kani::proof]
#[kani::unwind(6)]
fn c20__select__siblings_4() {
    check_select::<4>();
    kani::cover!(true); // vacuity guard: the end of the harness is reachable under its assumptions
}

/// a node counts as macro expanded exactly when it has the dummy start 0 or is not inside the
/// text of the expression being inspected
#[kani::proof]
fn c20__macro_expanded__iff_outside_source() {
    let (a, b, c, d): (u32, u32, u32, u32) = (kani::any(), kani::any(), kani::any(), kani::any());
    kani::assume(a <= b && c <= d);
    let v = visitor(any_pos(), mk_span(a, b));
    let r = v.is_macro_expanded(mk_span(c, d));
    assert!(r == (c == 0 || !(a <= c && d <= b)));
    core::mem::forget(v);
    kani::cover!(true); // vacuity guard: the end of the harness is reachable under its assumptions
}
