// Kani harness module appended (scratch copy) to base/src/pos.rs; child module of `pos`.
// Span algebra at I = BytePos (u32 byte offsets), full domain, loop-free => complete proofs.
use super::*;
use std::cmp::Ordering;

fn any_pos() -> BytePos {
    BytePos::from(kani::any::<u32>())
}
fn raw(p: BytePos) -> u32 {
    p.to_usize() as u32
}
/// any span as the parser/`Span::new` can produce it: start <= end (type invariant, precondition of the queries)
fn any_span() -> Span<BytePos> {
    let s = Span { start: any_pos(), end: any_pos() };
    kani::assume(s.start <= s.end);
    s
}
impl kani::Arbitrary for Span<BytePos> {
    fn any() -> Self {
        any_span()
    }
}

// -------------------------------------------------------------- construction
// contract attached to Span::new by inject.toml:
//   ensures r.start <= r.end      (the set equality {r.start,r.end} == {start,end} cannot be written in a Kani
//   `ensures` for a generic non-Copy I -- the arguments are moved -- so it is asserted in the harness body instead;
//   the lemma harnesses below therefore inline the real `new` rather than stubbing it)
#[kani::proof_for_contract(Span::new)]
fn c08__span__new_contract() {
    let (a, b) = (any_pos(), any_pos());
    let r = Span::new(a, b);
    // explicit copies of the postcondition so that a native replay reproduces a violation
    assert!(r.start <= r.end);
    assert!((r.start == a && r.end == b) || (r.start == b && r.end == a));
    kani::cover!(true); // vacuity guard: the end of the harness is reachable under its assumptions
}

#[kani::proof]
fn c08__span__with_start_with_end() {
    let s = any_span();
    let p = any_pos();
    let a = s.with_start(p);
    assert!(a.start <= a.end);
    assert!((a.start == p && a.end == s.end) || (a.start == s.end && a.end == p));
    let b = s.with_end(p);
    assert!(b.start <= b.end);
    assert!((b.start == s.start && b.end == p) || (b.start == p && b.end == s.start));
    kani::cover!(true); // vacuity guard: the end of the harness is reachable under its assumptions
}

/// `to` is the least span containing both arguments (what every parser action that joins two
/// sub-spans relies on)
#[kani::proof]
fn c08__span__to_is_least_upper_bound() {
    let (a, b) = (any_span(), any_span());
    let t = a.to(b);
    assert!(t.start <= t.end);
    assert!(t.contains(a) && t.contains(b));
    assert!(t.start == a.start || t.start == b.start);
    assert!(t.end == a.end || t.end == b.end);
    // least: any span containing both contains t
    let u = any_span();
    if u.contains(a) && u.contains(b) {
        assert!(u.contains(t));
    }
    kani::cover!(true); // vacuity guard: the end of the harness is reachable under its assumptions
}

#[kani::proof]
fn c08__span__between_until() {
    let (a, b) = (any_span(), any_span());
    kani::assume(a.end <= b.start); // a precedes b in the text
    let m = a.between(b);
    assert!(m.start == a.end && m.end == b.start);
    let u = a.until(b);
    assert!(u.start == a.start && u.end == b.start);
    kani::cover!(true); // vacuity guard: the end of the harness is reachable under its assumptions
}

#[kani::proof]
fn c08__span__from_offset() {
    let s = any_pos();
    let off: u32 = kani::any();
    kani::assume(raw(s) as u64 + off as u64 <= u32::MAX as u64); // stays inside the addressable text
    let r = Span::from_offset(s, ByteOffset(off as i64));
    assert!(r.start == s && raw(r.end) == raw(s) + off);
    kani::cover!(true); // vacuity guard: the end of the harness is reachable under its assumptions
}

/// subspan delimits [start+begin, start+end) and panics only when its documented precondition fails
#[kani::proof]
fn c08__span__subspan() {
    let s = any_span();
    let (b, e): (u32, u32) = (kani::any(), kani::any());
    kani::assume(b <= e && raw(s.start) as u64 + e as u64 <= raw(s.end) as u64);
    let r = s.subspan(ByteOffset(b as i64), ByteOffset(e as i64));
    assert!(raw(r.start) == raw(s.start) + b && raw(r.end) == raw(s.start) + e);
    assert!(s.contains(r));
    kani::cover!(true); // vacuity guard: the end of the harness is reachable under its assumptions
}

#[kani::proof]
#[kani::should_panic]
fn c08__span__subspan_rejects_out_of_range() {
    let s = any_span();
    let (b, e): (u32, u32) = (kani::any(), kani::any());
    kani::assume(b > e || raw(s.start) as u64 + e as u64 > raw(s.end) as u64);
    let _ = s.subspan(ByteOffset(b as i64), ByteOffset(e as i64));
}

// -------------------------------------------------------------- containment (C20: cursor queries; C08: spans delimit text)
#[kani::proof]
fn c20__containment__contains_is_interval_inclusion() {
    let (a, b) = (any_span(), any_span());
    assert!(a.contains(b) == (raw(a.start) <= raw(b.start) && raw(b.end) <= raw(a.end)));
    let p = any_pos();
    assert!(a.contains_pos(p) == (raw(a.start) <= raw(p) && raw(p) <= raw(a.end)));
    kani::cover!(true); // vacuity guard: the end of the harness is reachable under its assumptions
}

/// total and trichotomous for every (start, end, pos): Less before, Greater after, Equal exactly on [start, end]
#[kani::proof]
fn c20__containment__trichotomy() {
    let s = any_span();
    let p = any_pos();
    let c = s.containment(p);
    assert!((c == Ordering::Less) == (raw(p) < raw(s.start)));
    assert!((c == Ordering::Greater) == (raw(p) > raw(s.end)));
    assert!((c == Ordering::Equal) == (raw(s.start) <= raw(p) && raw(p) <= raw(s.end)));
    assert!(s.contains_pos(p) == (c == Ordering::Equal));
    kani::cover!(true); // vacuity guard: the end of the harness is reachable under its assumptions
}

/// the exclusive variant differs only at pos == end (the position just after the last character)
#[kani::proof]
fn c20__containment__exclusive_differs_only_at_end() {
    let s = any_span();
    let p = any_pos();
    let c = s.containment_exclusive(p);
    if p == s.end {
        assert!(c == Ordering::Greater);
    } else {
        assert!(c == s.containment(p));
    }
    assert!((c == Ordering::Equal) == (raw(s.start) <= raw(p) && raw(p) < raw(s.end)));
    kani::cover!(true); // vacuity guard: the end of the harness is reachable under its assumptions
}

// -------------------------------------------------------------- Location::shift (line/column bookkeeping of the lexer)
#[kani::proof]
fn c08__location__shift() {
    let (l, c, a): (u32, u32, u32) = (kani::any(), kani::any(), kani::any());
    kani::assume(l < u32::MAX && c < u32::MAX && a < u32::MAX);
    let mut loc = Location { line: Line::from(l), column: Column::from(c), absolute: BytePos::from(a) };
    let ch: u8 = kani::any();
    loc.shift(ch);
    assert!(loc.absolute.to_usize() as u32 == a + 1);
    if ch == b'\n' {
        assert!(loc.line.to_usize() as u32 == l + 1 && loc.column.to_usize() == 1);
    } else {
        assert!(loc.line.to_usize() as u32 == l && loc.column.to_usize() as u32 == c + 1);
    }
    kani::cover!(true); // vacuity guard: the end of the harness is reachable under its assumptions
}
