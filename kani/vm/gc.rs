// Kani harness module appended (in the scratch copy) to vm/src/gc.rs as
//   #[cfg(kani)] #[path = "/verif/kani/vm/gc.rs"] mod verif_kani;
// It is a child module of `gc`, so it sees the private items of the real file.
// Obligation names: <property>/<unit>/<clause>; harness fn names are those with '/' -> '__'.
use super::*;

impl kani::Arbitrary for Generation {
    fn any() -> Self {
        Generation(kani::any())
    }
}

/// Generations that can exist: the root is 0 (`Default`), children are made by `next()`
/// only, and `disjoint()` is -1.  (type invariant used as precondition, with a cover)
fn valid_gen(g: Generation) -> bool {
    g.0 >= -1
}

// ---------------------------------------------------------------- C13 / generation
// Function contracts (attached by inject.toml to the real functions):
//   is_root:                 ensures r == (self.0 == 0)
//   is_parent_of:            ensures r == (self.0 <  other.0)
//   can_contain_values_from: ensures r == (other.0 <= self.0)
//   next:                    requires self.0 < i32::MAX; ensures r.0 == self.0 + 1
//   disjoint:                ensures r.0 < 0

#[kani::proof_for_contract(Generation::is_root)]
fn c13__generation__is_root_contract() {
    let g: Generation = kani::any();
    let r = g.is_root();
    assert!(r == (g.0 == 0)); // copy of the postcondition, so that a native replay reproduces a violation
    kani::cover!(true); // vacuity guard: the end of the harness is reachable under its assumptions
}

#[kani::proof_for_contract(Generation::is_parent_of)]
fn c13__generation__is_parent_of_contract() {
    let a: Generation = kani::any();
    let b: Generation = kani::any();
    let r = a.is_parent_of(b);
    assert!(r == (a.0 < b.0));
    kani::cover!(true); // vacuity guard: the end of the harness is reachable under its assumptions
}

#[kani::proof_for_contract(Generation::can_contain_values_from)]
fn c13__generation__can_contain_contract() {
    let a: Generation = kani::any();
    let b: Generation = kani::any();
    let r = a.can_contain_values_from(b);
    assert!(r == (b.0 <= a.0));
    kani::cover!(true); // vacuity guard: the end of the harness is reachable under its assumptions
}

#[kani::proof_for_contract(Generation::next)]
fn c13__generation__next_contract() {
    let a: Generation = kani::any();
    let r = a.next();
    assert!(r.0 == a.0 + 1);
    kani::cover!(true); // vacuity guard: the end of the harness is reachable under its assumptions
}

#[kani::proof_for_contract(Generation::disjoint)]
fn c13__generation__disjoint_contract() {
    let r = Generation::disjoint();
    assert!(r.0 < 0);
    kani::cover!(true); // vacuity guard: the end of the harness is reachable under its assumptions
}

/// `next` panics only at i32::MAX (2^31 nested child VMs) -- totality elsewhere is the
/// contract above; this harness shows the precondition is exactly the panic condition.
#[kani::proof]
#[kani::should_panic]
fn c13__generation__next_panics_only_at_max() {
    Generation(i32::MAX).next();
}

// Lemmas over the contracts (callees replaced by their verified contracts).

/// A heap that is forced to copy everything (`disjoint`) shares with no real generation.
#[kani::proof]
#[kani::stub_verified(Generation::can_contain_values_from)]
#[kani::stub_verified(Generation::disjoint)]
fn c13__generation__disjoint_shares_nothing() {
    let g: Generation = kani::any();
    kani::assume(g.0 >= 0);
    assert!(!Generation::disjoint().can_contain_values_from(g));
    kani::cover!(true); // vacuity guard: the end of the harness is reachable under its assumptions
}

/// A child heap is strictly younger than its parent: the child may hold parent values,
/// the parent may never hold child values uncopied.
#[kani::proof]
#[kani::stub_verified(Generation::can_contain_values_from)]
#[kani::stub_verified(Generation::is_parent_of)]
#[kani::stub_verified(Generation::next)]
#[kani::stub_verified(Generation::is_root)]
fn c13__generation__child_is_strictly_younger() {
    let g: Generation = kani::any();
    kani::assume(valid_gen(g) && g.0 < i32::MAX);
    let c = g.next();
    assert!(g.is_parent_of(c));
    assert!(c.can_contain_values_from(g));
    assert!(!g.can_contain_values_from(c));
    assert!(c.can_contain_values_from(c));
    // only the root has no parent: a generation made by next() from a real one is not root
    if g.0 >= 0 {
        assert!(!c.is_root());
    }
    kani::cover!(true); // vacuity guard: the end of the harness is reachable under its assumptions
}

/// The share test is a total pre-order compatible with ancestry: transitive, reflexive,
/// and the complement of `is_parent_of` swapped.
#[kani::proof]
#[kani::stub_verified(Generation::can_contain_values_from)]
#[kani::stub_verified(Generation::is_parent_of)]
fn c13__generation__share_iff_not_younger() {
    let a: Generation = kani::any();
    let b: Generation = kani::any();
    let c: Generation = kani::any();
    // receiver a may keep a pointer to a value of generation b  <=>  b is a itself or older
    assert!(a.can_contain_values_from(b) == !a.is_parent_of(b));
    assert!(a.can_contain_values_from(a));
    if a.can_contain_values_from(b) && b.can_contain_values_from(c) {
        assert!(a.can_contain_values_from(c));
    }
    kani::cover!(true); // vacuity guard: the end of the harness is reachable under its assumptions
}

// ---------------------------------------------------------------- shared helpers

/// Stand-in for `Gc::get_type_info`: same result shape (a `TypeInfo` carrying the
/// collector's generation and the drop fn) but no hash-map interning (hashbrown is
/// intractable for CBMC; DESIGN 1.1).  Listed as an assumption in evidence.
fn stub_get_type_info(
    gc: &mut Gc,
    _tag: Option<&InternedStr>,
    _fields: Option<&[InternedStr]>,
    _type_id: TypeId,
    drop: unsafe fn(*mut ()),
) -> *const TypeInfo {
    Box::into_raw(Box::new(TypeInfo {
        drop,
        generation: gc.generation,
        tag: None,
        fields: FnvMap::default(),
        fields_key: Arc::from(Vec::new()),
    }))
}

fn sym_gc() -> Gc {
    let mut gc = Gc::new(kani::any(), kani::any());
    gc.allocated_memory = kani::any();
    gc.collect_limit = kani::any();
    gc
}

/// The configured memory limit is stored as given, by the constructor and by the setter (what
/// `alloc_owned` compares against), and setting it does not touch the accounting.
#[kani::proof]
fn c07__mem_limit__limit_stored_as_given() {
    let l0: usize = kani::any();
    let l: usize = kani::any();
    let mut gc = Gc::new(kani::any(), l0);
    assert!(gc.memory_limit == l0);
    // any state of the accounting (the limit may be lowered below what is already allocated)
    gc.allocated_memory = kani::any();
    gc.collect_limit = kani::any();
    let allocated = gc.allocated_memory;
    let climit = gc.collect_limit;
    gc.set_memory_limit(l);
    assert!(gc.memory_limit == l);
    assert!(gc.allocated_memory == allocated && gc.collect_limit == climit);
    mem::forget(gc);
    kani::cover!(true); // vacuity guard
}

// ---------------------------------------------------------------- C13 / gc-cloner coherence

/// With the real `Gc::mark` on a real one-object heap: whenever the cloner of a receiver
/// heap `r` would *share* a value of generation `v` (`r.can_contain_values_from(v)`),
/// the collector of `r` either marks that object (it is r's own) or skips it because it
/// belongs to a strict ancestor -- and it never skips an object of its own generation.
#[kani::proof]
#[kani::stub(Gc::get_type_info, stub_get_type_info)]
fn c13__generation__gc_mark_agrees_with_share() {
    let v: Generation = kani::any();
    let r: Generation = kani::any();
    let mut owner = Gc::new(v, usize::MAX);
    let ptr: GcPtr<u8> = unsafe { owner.alloc_ignore_limit(Move(7u8)).unrooted() };
    let mut recv = Gc::new(r, usize::MAX);
    let shared = r.can_contain_values_from(v);
    let skipped = recv.mark(&ptr);
    let now_marked = ptr.header().marked.get();
    if shared {
        // shared pointers are either traced by the receiver or owned by a strict ancestor
        assert!((v.0 == r.0 && !skipped && now_marked) || (v.0 < r.0 && skipped && !now_marked));
    } else {
        // a pointer into a younger heap would be *marked* by a collector that does not own it;
        // the cloner must therefore never let one through (this is the other half of C13)
        assert!(v.0 > r.0);
    }
    // marking twice reports "already marked"
    if !skipped {
        assert!(recv.mark(&ptr));
    }
    mem::forget(owner);
    mem::forget(recv);
    kani::cover!(true); // vacuity guard: the end of the harness is reachable under its assumptions
}

// ---------------------------------------------------------------- C07 / mem-limit

macro_rules! mem_limit_harness {
    ($name:ident, $ty:ty, $val:expr) => {
        #[kani::proof]
        #[kani::stub(Gc::get_type_info, stub_get_type_info)]
        fn $name() {
            let mut gc = sym_gc();
            // type invariant: the system allocator never hands out more than isize::MAX bytes
            kani::assume(gc.allocated_memory <= isize::MAX as usize);
            let before = gc.allocated_memory;
            let limit = gc.memory_limit;
            let had_values = gc.values.is_some();
            let size = mem::size_of::<$ty>();
            let hdr = GcHeader::value_offset();
            let res = gc.alloc_owned(Move::<$ty>($val));
            let ok = res.is_ok();
            match &res {
                Ok(_) => {}
                Err(Error::OutOfMemory { limit: l, needed }) => {
                    // error is the documented one and reports the real numbers
                    assert!(*l == limit);
                    // `needed` is what the allocation would have brought the heap to (payload, with or without header)
                    assert!(*needed >= before.saturating_add(size));
                    assert!(*needed <= before.saturating_add(size).saturating_add(hdr));
                    assert!(*needed >= limit);
                }
                Err(_) => assert!(false),
            }
            mem::forget(res);
            let after = gc.allocated_memory;
            if ok {
                // accounting: header + payload, exactly, no wrap
                assert!(after == before + hdr + size);
                assert!(gc.values.is_some());
                // C07 statement: memory accounted to the thread never exceeds the limit
                assert!(after <= limit);
            } else {
                // failed allocation leaves the heap untouched
                assert!(after == before);
                assert!(gc.values.is_some() == had_values);
                // and it fails only when the allocation really would reach the limit
                assert!(before.saturating_add(hdr).saturating_add(size) >= limit);
            }
            assert!(gc.memory_limit == limit);
            kani::cover!(ok, "vacuity guard: a successful allocation is reachable");
            kani::cover!(!ok, "vacuity guard: a refused allocation is reachable");
            mem::forget(gc);
        }
    };
}

mem_limit_harness!(c07__mem_limit__alloc_owned_u8, u8, kani::any());
mem_limit_harness!(c07__mem_limit__alloc_owned_u64, u64, kani::any());

// ---------------------------------------------------------------- C07 / check-collect
struct NoRoots;
unsafe impl Trace for NoRoots {
    impl_trace! { self, _gc, {} }
}
impl CollectScope for NoRoots {
    fn scope<F>(&self, gc: &mut Gc, f: F)
    where
        F: FnOnce(&mut Gc),
    {
        f(gc)
    }
}

/// The collection trigger: a collection runs exactly when the accounted memory has reached the
/// collect limit, and afterwards the limit is twice what survived (so the heap can at most double
/// between collections).  Empty heap (the sweep loop body is not entered), symbolic counters.
#[kani::proof]
#[kani::unwind(2)]
fn c07__check_collect__trigger_iff_limit_reached() {
    let mut gc = sym_gc();
    kani::assume(gc.allocated_memory <= isize::MAX as usize);
    let before = gc.allocated_memory;
    let climit = gc.collect_limit;
    let mlimit = gc.memory_limit;
    let collected = unsafe { gc.check_collect(NoRoots) };
    assert!(collected == (before >= climit));
    assert!(gc.memory_limit == mlimit);
    if collected {
        assert!(gc.collect_limit == 2 * gc.allocated_memory);
    } else {
        assert!(gc.collect_limit == climit && gc.allocated_memory == before);
    }
    mem::forget(gc);
    kani::cover!(true); // vacuity guard: the end of the harness is reachable under its assumptions
}

