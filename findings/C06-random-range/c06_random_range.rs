//! C06: a primitive called with well-typed arguments must not abort the host.
mod support;
use gluon::{vm::api::IO, ThreadExt};
use crate::support::*;

#[test]
fn gen_int_range_with_empty_range_is_an_error_value() {
    let vm = make_vm();
    vm.run_io(true);
    let text = r#" let prim = import! std.random.prim in prim.gen_int_range 5 5 "#;
    let res = vm.run_expr::<IO<i64>>("empty_range", text);
    match res {
        Ok((IO::Value(v), _)) => panic!("expected an error, got the value {}", v),
        _ => (),
    }
}
