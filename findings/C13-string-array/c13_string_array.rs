//! C13: an array of strings handed to an unrelated VM must not keep pointers into the sender's heap.
mod support;

use gluon::{
    RootedThread,
    vm::{
        api::{Hole, OpaqueValue, ValueRef},
        thread::RootedValue,
    },
};

use crate::support::*;

fn elem_ptrs(value: &RootedValue<RootedThread>) -> Vec<(*const u8, String)> {
    match value.get_variant().as_ref() {
        ValueRef::Array(array) => array
            .iter()
            .map(|v| match v.as_ref() {
                ValueRef::String(s) => (s.as_ptr(), s.to_string()),
                other => panic!("expected a string, got {:?}", other),
            })
            .collect(),
        other => panic!("expected an array, got {:?}", other),
    }
}

#[test]
fn string_array_is_fully_copied_into_unrelated_vm() {
    let vm1 = make_vm();
    let vm2 = make_vm();
    load_script(&vm1, "c13_strs", r#" { xs = ["a string owned by vm1", "another one"] } "#)
        .unwrap_or_else(|err| panic!("{}", err));
    let original: OpaqueValue<RootedThread, Hole> = vm1.get_global("c13_strs").unwrap_or_else(|err| panic!("{}", err));
    let original: RootedValue<RootedThread> = original.into_inner();
    let copy: RootedValue<RootedThread> = original.re_root(vm2.clone()).unwrap();
    let o = elem_ptrs(&original.get(0).unwrap());
    let c = elem_ptrs(&copy.get(0).unwrap());
    assert_eq!(o.len(), 2);
    for i in 0..2 {
        assert_eq!(o[i].1, c[i].1);
        assert_ne!(o[i].0, c[i].0, "vm2's array element {} points to a string in the heap of the unrelated vm1", i);
    }
}
