//! C06: a primitive called with well-typed arguments must not abort the host.
mod support;
use gluon::{vm::api::IO, ThreadExt};
use crate::support::*;

#[test]
fn read_file_with_negative_count_is_an_error_value() {
    let vm = make_vm();
    vm.run_io(true);
    let text = r#"
        let io_prim = import! std.io.prim
        let { OpenOptions } = io_prim
        let { flat_map, wrap } = import! std.io.prim
        flat_map (\file -> flat_map (\_ -> wrap 0) (io_prim.read_file file (0 #Int- 1))) (io_prim.open_file_with "Cargo.toml" [Read])
    "#;
    let res = vm.run_expr::<IO<i64>>("neg_count", text);
    match res {
        Ok((IO::Value(v), _)) => panic!("expected an error, got the value {}", v),
        Ok(_) => (),
        Err(err) => { let s = err.to_string(); assert!(!s.contains("Undefined") && !s.contains("type"), "test program does not typecheck: {}", s); }
    }
}
