//! C17: a failing lazy computation makes every force -- from any thread -- report an error rather than hang.
mod support;
use gluon::{ThreadExt, vm::api::IO};
use crate::support::*;

#[test]
fn failed_lazy_forced_again_from_another_thread_reports_an_error() {
    let vm = make_vm();
    load_script(&vm, "c17_l", r#"
let { Lazy, lazy } = import! std.lazy
let { error } = import! std.prim
let l : Lazy Int = lazy (\_ -> error "boom")
l
"#).unwrap_or_else(|e| panic!("{}", e));
    let force_src = r#" let { force } = import! std.lazy in let l = import! c17_l in force l "#;
    let t1 = vm.new_thread().unwrap();
    let t2 = vm.new_thread().unwrap();
    let first = t1.run_expr::<i64>("first", force_src);
    assert!(first.is_err(), "the failing computation must fail the first force: {:?}", first.map(|x| x.0));
    let (tx, rx) = std::sync::mpsc::channel();
    std::thread::spawn(move || {
        let second = t2.run_expr::<i64>("second", force_src).map(|x| x.0).map_err(|e| e.to_string());
        let _ = tx.send(second);
    });
    match rx.recv_timeout(std::time::Duration::from_secs(20)) {
        Ok(second) => assert!(second.is_err(), "expected an error, got {:?}", second),
        Err(_) => panic!("second force (from another thread) of the failed lazy value did not return within 20 s: hang"),
    }
}
