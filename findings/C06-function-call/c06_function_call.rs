//! C06: after a failed evaluation the same VM must evaluate later programs exactly as a fresh VM would.
//! Entry point here: the host calling a gluon function through `FunctionRef::call` (api/function.rs call_first /
//! call_any_first), which -- unlike call_thunk_top / execute_io_top -- does not reset the stack on failure.
use gluon::{new_vm, vm::api::FunctionRef, ThreadExt};

#[test]
fn vm_usable_after_failed_function_call() {
    let vm = new_vm();
    vm.load_script("c06_div", r#" let f x : Int -> Int = 10 #Int/ x in f "#)
        .unwrap_or_else(|err| panic!("{}", err));
    let mut f: FunctionRef<fn(i32) -> i32> = vm.get_global("c06_div").unwrap();
    assert_eq!(f.call(2).unwrap(), 5);
    let frames_before = { use gluon::vm::thread::ThreadInternal; vm.context().frame_level() };
    // the failing call: division by zero is reported as an error value ...
    assert!(f.call(0).is_err());
    // ... and afterwards the VM must behave like a fresh one
    let frames_after = { use gluon::vm::thread::ThreadInternal; vm.context().frame_level() };
    let again = f.call(2);
    let fresh = vm.run_expr::<i32>("c06_fresh", "1 #Int+ 2");
    assert_eq!(
        (frames_after, again.as_ref().ok().copied(), fresh.as_ref().ok().map(|x| x.0)),
        (frames_before, Some(5), Some(3)),
        "frames {} -> {}, f 2 = {:?}, 1 + 2 = {:?}",
        frames_before,
        frames_after,
        again,
        fresh.map(|x| x.0)
    );
}
