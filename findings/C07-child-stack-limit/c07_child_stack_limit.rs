//! C07: with a stack-size limit configured a program either completes within the limit or fails with a stack
//! overflow error.  A thread spawned from a limited thread must not be a way around the limit.
use gluon::{
    new_vm, Error, Thread, ThreadExt,
    vm::{
        api::{Hole, OpaqueValue},
        thread::ThreadInternal,
        Error as VMError,
    },
};

#[test]
fn child_thread_runs_under_the_stack_limit_of_its_parent() {
    let vm = new_vm();
    vm.get_database_mut().implicit_prelude(false);
    vm.context().set_max_stack_size(3);

    // the parent is limited ...
    let expr = " [1, 2, 3, 4] ";
    match vm.run_expr::<OpaqueValue<&Thread, Hole>>("parent", expr) {
        Err(Error::VM(VMError::StackOverflow(3))) => (),
        other => panic!("parent: expected StackOverflow(3), got {:?}", other.map(|_| ())),
    }
    // ... and so must be a thread spawned from it
    let child = vm.new_thread().unwrap();
    match child.run_expr::<OpaqueValue<&Thread, Hole>>("child", expr) {
        Err(Error::VM(VMError::StackOverflow(3))) => (),
        other => panic!("child: expected StackOverflow(3), got {:?}", other.map(|_| ())),
    }
}
