//! C06: after a failed evaluation the same VM evaluates later programs exactly as a fresh VM would and the stack
//! used by the failed run can be reclaimed.
mod support;

use gluon::{vm::thread::ThreadInternal, ThreadExt};

use crate::support::*;

#[test]
fn failed_runs_do_not_leak_stack_slots() {
    let vm = make_vm();
    vm.get_database_mut().implicit_prelude(false);
    // warm up so that module loading does not count
    let _ = vm.run_expr::<i32>("ok", "1 #Int+ 2").unwrap();
    let before = { let mut c = vm.context(); let f = c.stack_frame::<gluon::vm::stack::State>(); f.len() as usize };
    for _ in 0..20 {
        let r = vm.run_expr::<i32>("fail", r#" let prim = import! std.array.prim in prim.index [1, 2] 7 "#);
        assert!(r.is_err());
    }
    let after = { let mut c = vm.context(); let f = c.stack_frame::<gluon::vm::stack::State>(); f.len() as usize };
    assert_eq!(before, after, "every failed run left {} value(s) on the VM stack", (after - before) / 20);
}
