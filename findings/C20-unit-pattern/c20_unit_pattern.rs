extern crate gluon_base as base;
extern crate gluon_check as check;
extern crate gluon_completion as completion;
extern crate gluon_parser as parser;
#[macro_use]
extern crate collect_mac;

use crate::base::pos::BytePos;

#[allow(unused)]
mod support;
use crate::support::MockEnv;

/// C20: type-at-position must return (Ok or Err) for every cursor position of a program containing the unit
/// pattern `()` (a tuple pattern with an EMPTY element list)
#[test]
fn type_at_every_position_of_unit_pattern() {
    let text = "let () = ()\n1";
    let env = MockEnv::new();
    let (expr, result) = support::typecheck_expr(text);
    let expr = expr.expr();
    assert!(result.is_ok(), "{}", result.unwrap_err());
    for p in 0..=text.len() {
        let extract = (completion::SpanAt, completion::TypeAt { env: &env });
        let _ = completion::completion(extract, expr.span, &expr, BytePos::from(p as u32));
    }
}
