#!/bin/bash
# usage: tryseed.sh <seed-name> <check args...> : run a check against a private copy of /repo with the seed applied
# (dev helper; does not touch /repo, evidence goes to a scratch dir)
set -e
s=$1; shift
W=/var/tmp/gluon-verif-dev
mkdir -p $W/repo-$s
rsync -a --delete --exclude target --exclude .git /repo/ $W/repo-$s/
(cd $W/repo-$s && d=/verif/seeded/$s; [ -d $d ] || d=/var/tmp/seed-stage/$s; patch -p1 -s < $d/patch.diff)
cd /verif
VERIF_WORK=$W/work-$s VERIF_REPO=$W/repo-$s VERIF_EVIDENCE_DIR=$W/ev ./check "$@" 2>&1 | grep -E -A4 "VIOLATION|UNDECIDED|BROKEN|discharged|KNOWN" | cut -c1-2400
rm -rf $W/repo-$s $W/work-$s
