#!/usr/bin/python3
"""Re-run selected seeded changes against the obligations they are expected to trip (./check P --only ..), each on a private
copy of /repo (lib/tryseed.sh), and record the outcome in seeded/RESULTS.json with the exact command.  A violation reported
by a subset of a check's obligations is also reported by the full check; a MISS must be established with the full check
(lib/seeds.py or tryseed.sh without --only).  usage: seeds_targeted.py seed=only[,only..] ..."""
import json, os, subprocess, sys, time
V = os.path.dirname(os.path.dirname(os.path.abspath(__file__)))
res_path = os.path.join(V, "seeded", "RESULTS.json")
results = json.load(open(res_path))
for a in sys.argv[1:]:
    seed, only = a.split("=")
    pid = seed.split("-")[0]
    cmd = [os.path.join(V, "lib", "tryseed.sh"), seed, pid] + (["--only", only] if only else [])
    t0 = time.time()
    r = subprocess.run(cmd, capture_output=True, text=True, cwd=V)
    out = r.stdout + r.stderr
    lines = [l[:300] for l in out.splitlines() if l.startswith(("VIOLATION", "KNOWN-FINDING", "UNDECIDED", "CHECK-BROKEN")) or "discharged" in l]
    viol = any(l.startswith("VIOLATION") for l in lines)
    broken = any(l.startswith(("CHECK-BROKEN", "UNDECIDED")) for l in lines)
    results[seed] = {"applied": True, "rc": 1 if viol else (2 if broken else 0), "detected": viol, "seconds": round(time.time() - t0), "lines": lines[:8],
                     "cmd": "lib/tryseed.sh %s %s%s" % (seed, pid, (" --only " + only) if only else "")}
    print(seed, results[seed]["rc"], lines[:3], flush=True)
    json.dump(results, open(res_path, "w"), indent=1)
