"""Mutation self-test (thorough tier): copy /repo's working tree, apply one edit, run the property's check on the
copy restricted to the expected obligations, expect exit 1.  Uses its own work dir so that the caller's lock is not
taken twice."""
import os, re, subprocess, tomllib, time
from common import *

MUT_ROOT = os.path.join(WORK, "mut")


def run_for(pid, engines=("verus", "kani")):
    with open(os.path.join(VERIF, "lib", "mutants.toml"), "rb") as f:
        muts = [m for m in tomllib.load(f)["mutant"] if m["property"] == pid and m["engine"] in engines]
    out = []
    if not muts:
        return out
    repo = os.path.join(MUT_ROOT, "repo")
    os.makedirs(repo, exist_ok=True)
    for m in muts:
        rc = subprocess.run(["rsync", "-a", "--delete", "--exclude", "/target", "--exclude", "/.git", REPO.rstrip("/") + "/", repo + "/"], capture_output=True, text=True)
        if rc.returncode != 0:
            raise Broken("rsync for mutation test failed: " + rc.stderr)
        path = os.path.join(repo, m["file"])
        src = read(path)
        new, n = re.subn(m["find"], m["replace"].replace("\\", "\\\\"), src, count=1)
        rec = {"file": m["file"], "find": m["find"], "expect": m["expect"], "engine": m["engine"]}
        if n != 1:
            rec["result"] = "not-applicable (pattern no longer matches)"
            out.append(rec)
            continue
        with open(path, "w") as f:
            f.write(new)
        env = dict(os.environ, VERIF_REPO=repo, VERIF_WORK=os.path.join(MUT_ROOT, "work"))
        t0 = time.time()
        p = subprocess.run([os.path.join(VERIF, "check"), pid, "--only", ",".join(m["expect"])], capture_output=True, text=True, env=env, cwd=VERIF)
        viol = [l for l in p.stdout.splitlines() if l.startswith("VIOLATION")]
        rec["seconds"] = round(time.time() - t0, 1)
        rec["result"] = "killed" if p.returncode == 1 and viol else ("survived" if p.returncode == 0 else "undecided (exit %d)" % p.returncode)
        out.append(rec)
    return out
