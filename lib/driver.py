import re
import argparse, importlib, json, os, sys, time, traceback
from common import *
import scratch, kani_run, verus_run, findings, mutation

PROPS = ["C01", "C06", "C07", "C08", "C13", "C17", "C20"]


def load_prop(pid):
    sys.path.insert(0, os.path.join(VERIF, "props"))
    return importlib.import_module(pid.lower())


def main(argv):
    ap = argparse.ArgumentParser()
    ap.add_argument("prop", nargs="?")
    ap.add_argument("--tier", default=os.environ.get("VERIF_TIER", "quick"), choices=["quick", "thorough"])
    ap.add_argument("--replay")
    ap.add_argument("--setup", action="store_true")
    ap.add_argument("--list", action="store_true")
    ap.add_argument("--only", help="comma separated obligation-name substrings (debugging; evidence not written)")
    a = ap.parse_args(argv)
    try:
        if a.setup:
            return setup()
        if a.replay:
            return replay(a.replay)
        if not a.prop:
            ap.error("property id required")
        if a.list:
            gen_all(a.tier)
            for o in load_prop(a.prop.upper()).obligations(a.tier):
                print("%s\t%s\t%s" % (o["name"], o["engine"], "proof" if o.get("complete", True) else "bounded"))
            return 0
        return check(a.prop.upper(), a.tier, a.only)
    except Broken as e:
        log("CHECK-BROKEN (undecided, not a violation): %s" % e)
        return EXIT_BROKEN


def gen_all(tier):
    """Generated harness modules are part of the injected scratch copy whatever property is checked."""
    for p in PROPS:
        try:
            m = load_prop(p)
        except ModuleNotFoundError:
            continue
        if hasattr(m, "generate"):
            m.generate(tier)


def setup():
    """Warm the Kani build cache (dependencies of the annotated crates) and Verus."""
    with scratch.Lock():
        gen_all("quick")
        scratch.prepare()
        crates = set()
        for p in PROPS:
            try:
                mod = load_prop(p)
            except ModuleNotFoundError:
                continue
            for o in mod.obligations("quick"):
                if o["engine"] == "kani":
                    crates.add(o["crate"])
        for c in sorted(crates):
            cmd = ["cargo", "kani", "-p", c, "--target-dir", kani_run.KANI_TARGET] + kani_run.ZFLAGS + ["--only-codegen"]
            rc, out, secs, to = run(cmd, cwd=scratch.SRC, timeout=3600)
            log("setup: kani codegen %s rc=%s %.0fs" % (c, rc, secs))
            if rc != 0:
                log("\n".join(out.splitlines()[-30:]))
    return 0


def check(pid, tier, only=None):
    t0 = time.time()
    seed = int(os.environ.get("VERIF_SEED", "0") or 0)
    mod = load_prop(pid)
    known = findings.load(pid)
    violations, broken, records, kani_meta = [], [], [], []
    with scratch.Lock():
        gen_all(tier)
        obs = mod.obligations(tier)
        if only:
            subs = only.split(",")
            obs = [o for o in obs if any(s in o["name"] for s in subs)]
        if not obs:
            raise Broken("no obligations generated for %s (vacuity guard)" % pid)
        kobs = [o for o in obs if o["engine"] == "kani"]
        vobs = [o for o in obs if o["engine"] == "verus"]
        info = scratch.prepare() if kobs else None
        # ---- engine K
        by_crate = {}
        for o in kobs:
            by_crate.setdefault(o["crate"], []).append(o)
        for crate, lst in sorted(by_crate.items()):
            tmo = max(o.get("timeout", 1500) for o in lst)
            res, out, meta = kani_run.build_and_verify(crate, ["::" + o["harness"] for o in lst], harness_timeout=tmo, exact=False)
            kani_meta.append(meta)
            for o in lst:
                r = res.get(o["harness"])
                rec = {"name": o["name"], "engine": "kani", "backend": "kani 0.68 / cbmc 6.11 / %s" % o.get("solver", "cadical"),
                       "complete": o.get("complete", True), "bound": o.get("bound"), "functions": o.get("functions", []),
                       "clause": o.get("clause", "")}
                records.append(rec)
                if r is None or r.status == "missing":
                    rec["status"] = "undecided"
                    broken.append("%s: harness %s not found in crate %s (vacuity guard)" % (o["name"], o["harness"], crate))
                    continue
                rec.update(status=r.status, solver_s=r.solver_s, symex_s=r.symex_s, wall_s=r.seconds,
                           checks=r.total_checks, stubs=r.stubs, kind=r.kind, covers_satisfied=r.covers)
                if r.status == "undecided":
                    broken.append("%s: %s" % (o["name"], r.reason))
                elif r.status == "failure":
                    if o.get("only_checks"):
                        # this obligation only answers for a subset of the harness's checks (e.g. C06 reuses the C01
                        # arithmetic harnesses but only for panic-freedom, not for the value oracle)
                        mine = [c for c in r.failed if re.search(o["only_checks"], c.get("description") or "")]
                        rec["failed_checks_not_mine"] = [c for c in r.failed if c not in mine]
                        if not mine:
                            rec["status"] = "success"
                            rec["note"] = "harness failed only on checks that belong to another property's clause"
                            continue
                        r.failed = mine
                    rec["failed_checks"] = r.failed
                    kf = next((k for k in known if k["kind"] == "known" and k.get("obligation") == o["name"]), None)
                    if kf:
                        kf["seen"] = True
                        rec["triage"] = "known-finding"
                        continue
                    v = triage_kani(pid, o, r, info, known)
                    rec["triage"] = v["kind"]
                    if v["kind"] == "violation":
                        violations.append(v)
        # ---- engine V
        units = {}
        for o in vobs:
            units.setdefault(o["unit"], []).append(o)
        for unit, lst in sorted(units.items()):
            ures = verus_run.run_unit(unit)
            for o in lst:
                fr = ures["functions"].get(o["function"])
                rec = {"name": o["name"], "engine": "verus", "backend": "verus 0.2026.09.13 / z3", "complete": True,
                       "functions": [o.get("source", o["function"])], "clause": o.get("clause", ""), "unit": unit}
                records.append(rec)
                if fr is None:
                    rec["status"] = "undecided"
                    broken.append("%s: function %s not in verus unit %s result" % (o["name"], o["function"], unit))
                    continue
                rec.update(status=fr["status"], wall_s=fr.get("time_s", 0.0), solver_s=fr.get("smt_s", 0.0),
                           source_sha=fr.get("source_sha"), rules=fr.get("rules"), source=fr.get("source"))
                if fr["status"] == "failure":
                    rec["errors"] = fr["errors"]
                    kf = next((k for k in known if k["kind"] == "known" and k.get("obligation") == o["name"]), None)
                    if kf:
                        kf["seen"] = True
                        rec["triage"] = "known-finding"
                        continue
                    v = triage_verus(pid, o, fr, ures)
                    rec["triage"] = v["kind"]
                    violations.append(v)
                elif fr["status"] != "success":
                    broken.append("%s: %s" % (o["name"], fr.get("reason", fr["status"])))
            for k in ("trusted", "rules_total", "file", "verus_summary", "wall_s"):
                pass
            records.append({"name": "unit:" + unit, "engine": "verus-unit", "status": "info", "summary": ures.get("summary"),
                            "trusted": ures.get("trusted", []), "file": ures.get("file"), "wall_s": ures.get("wall_s")})
        # ---- thorough extras (inside the lock: they use the same verus scratch dir)
        extras = {}
        if tier == "thorough" and not only:
            vac = {}
            for unit in sorted(units):
                pr = verus_run.vacuity_probe(unit)
                vac[unit] = pr
                for fid in pr["vacuous"]:
                    if any(o["function"] == fid for o in units[unit]):
                        broken.append("vacuity probe: %s/%s verifies with `ensures false` (contradictory precondition or assumed contract)" % (unit, fid))
            extras["verus_vacuity_probe"] = vac
    if tier == "thorough" and not only and not violations and not broken:
        ms = mutation.run_for(pid)
        extras["mutation_selftest"] = {"mutants": len(ms), "killed": sum(1 for m in ms if m["result"] == "killed"), "details": ms}
        for m in ms:
            if m["result"] != "killed":
                log("MUTANT %s: %s %s (contract strength, not a violation)" % (m["result"], m["file"], m["find"][:60]))
    wall = time.time() - t0
    # ---- report
    for k in known:
        if k["kind"] == "known" and k.get("seen"):
            print("KNOWN-FINDING: property=%s %s" % (pid, k["text"]))
        elif k["kind"] == "known" and k.get("obligation") and not only and any(r.get("name") == k["obligation"] and r.get("status") == "success" for r in records):
            log("note: known finding %s no longer fails on this tree (entry can be turned into a fixed: line)" % k["obligation"])
    rc = EXIT_OK
    if violations:
        rc = EXIT_VIOLATION
    elif broken:
        rc = EXIT_BROKEN
    if not only:
        write_evidence(pid, tier, seed, mod, records, violations, broken, kani_meta, wall, extras)
    for v in violations:
        tail = "" if v.get("reproduced") else " no-failing-input-found"
        print("VIOLATION property=%s replay=%s%s" % (pid, v["replay"], tail))
    for b in broken:
        log("UNDECIDED: " + b)
    n_ok = sum(1 for r in records if r.get("status") == "success")
    n_kf = sum(1 for r in records if r.get("triage") == "known-finding")
    log("%s %s: %d/%d obligations discharged, %d violation(s), %d known finding(s), %d undecided, %.0fs" % (
        pid, tier, n_ok, sum(1 for r in records if r["engine"] in ("kani", "verus")) - n_kf, len(violations), n_kf, len(broken), wall))
    return rc


def triage_kani(pid, o, r, info, known):
    """A harness in the committed set failed: get the counterexample, replay it natively on the
    real code, write the replay file."""
    os.makedirs(os.path.join(VERIF, "replays"), exist_ok=True)
    path = os.path.join(VERIF, "replays", "%s.json" % o["name"].replace("/", "__"))
    rep = {"property": pid, "obligation": o["name"], "engine": "kani", "crate": o["crate"], "harness": o["harness"],
           "module": o["module"], "modname": o.get("modname", "verif_kani"), "clause": o.get("clause", ""), "failed_checks": r.failed}
    test_text, test_name, decoded, out = kani_run.counterexample(o["crate"], o["harness"])
    reproduced = False
    if test_text:
        rep.update(playback_test=test_text, playback_name=test_name, inputs=decoded)
        entry = next(m for m in info["inject"]["module"] if m["file"] == o["module"] and m.get("name", "verif_kani") == o.get("modname", "verif_kani"))
        pb = kani_run.playback(o["crate"], entry, test_text, test_name)
        rep.update(native=pb)
        reproduced = pb["reproduced"]
    else:
        rep["note"] = "CBMC reported the failure but produced no concrete playback"
        rep["verifier_output"] = "\n".join(l for l in out.splitlines() if "Failed Checks" in l or "File:" in l or "VERIFICATION" in l)[-3000:]
    rep["reproduced"] = reproduced
    with open(path, "w") as f:
        json.dump(rep, f, indent=1)
    return {"kind": "violation", "obligation": o["name"], "replay": path, "reproduced": reproduced}


def triage_verus(pid, o, fr, ures):
    os.makedirs(os.path.join(VERIF, "replays"), exist_ok=True)
    path = os.path.join(VERIF, "replays", "%s.json" % o["name"].replace("/", "__"))
    rep = {"property": pid, "obligation": o["name"], "engine": "verus", "unit": o["unit"], "function": o["function"],
           "source": fr.get("source"), "clause": o.get("clause", ""), "verifier_output": fr["errors"],
           "note": "Verus gives no model; obligation passed on the pinned tree and fails on this tree", "reproduced": False}
    with open(path, "w") as f:
        json.dump(rep, f, indent=1)
    return {"kind": "violation", "obligation": o["name"], "replay": path, "reproduced": False}


def replay(path):
    rep = json.load(open(path))
    if rep.get("engine") != "kani" or not rep.get("playback_test"):
        print(json.dumps({k: rep.get(k) for k in ("obligation", "clause", "verifier_output", "note")}, indent=1))
        return EXIT_VIOLATION
    with scratch.Lock():
        gen_all("quick")
        info = scratch.prepare()
        entry = next(m for m in info["inject"]["module"] if m["file"] == rep["module"] and m.get("name", "verif_kani") == rep.get("modname", "verif_kani"))
        pb = kani_run.playback(rep["crate"], entry, rep["playback_test"], rep["playback_name"])
    print(pb["native_output"])
    print("replay of %s: %s" % (rep["obligation"], "REPRODUCED" if pb["reproduced"] else ("passes" if pb["passed"] else "inconclusive")))
    return EXIT_VIOLATION if pb["reproduced"] else (EXIT_OK if pb["passed"] else EXIT_BROKEN)


def write_evidence(pid, tier, seed, mod, records, violations, broken, kani_meta, wall, extras=None):
    obl_all = [r for r in records if r["engine"] in ("kani", "verus")]
    kfs = [r for r in obl_all if r.get("triage") == "known-finding"]
    obl = [r for r in obl_all if r.get("triage") != "known-finding"]
    complete = [r for r in obl if r.get("complete", True)]
    bounded = [r for r in obl if not r.get("complete", True)]
    trusted = list(getattr(mod, "TRUSTED", []))
    for r in records:
        for s in r.get("stubs", []) or []:
            t = "kani %s (in %s)" % (s, r["name"])
            if s.startswith("Stub") and t not in trusted:
                trusted.append(t)
        for s in r.get("trusted", []) or []:
            if s not in trusted:
                trusted.append(s)
    fns = sorted({f for r in obl for f in r.get("functions", [])})
    cmds = [m["cmd"] for m in kani_meta] + sorted({"verus %s --output-json --time" % r["file"] for r in records if r["engine"] == "verus-unit" and r.get("file")})
    ev = {
        "property_id": pid, "tier": tier, "seed": seed, "level": "proof",
        "coverage": {
            "obligations": len(complete),
            "discharged": sum(1 for r in complete if r.get("status") == "success"),
            "checker_cmd": " ; ".join(cmds) or "none",
            "trusted_base": trusted,
            "explanation": getattr(mod, "EXPLANATION", ""),
            "functions_under_contract": fns,
            "bounded_standins": [{"name": r["name"], "bound": r.get("bound"), "status": r.get("status")} for r in bounded],
            "bounded_count": len(bounded),
            "solver_seconds_total": round(sum(r.get("solver_s", 0) or 0 for r in obl), 3),
            "backends": sorted({r["backend"] for r in obl}),
            "samples": [{k: r.get(k) for k in ("name", "engine", "status", "clause", "functions", "solver_s", "wall_s", "checks", "covers_satisfied", "stubs", "source_sha", "rules", "bound") if r.get(k) not in (None, [], "")} for r in obl],
            "units": [r for r in records if r["engine"] == "verus-unit"],
            "undecided": broken,
            "known_findings_reported": [{"name": r["name"], "clause": r.get("clause")} for r in kfs],
            "not_under_contract": getattr(mod, "NOT_UNDER_CONTRACT", []),
        },
        "assumptions": list(getattr(mod, "ASSUMPTIONS", [])),
        "wall_s": round(wall, 1),
        "violations": len(violations),
    }
    ev["coverage"].update(extras or {})
    if hasattr(mod, "extra_evidence"):
        ev["coverage"].update(mod.extra_evidence())
    # runs against a deliberately modified tree (seeded changes, mutants) must not overwrite the evidence of the real tree
    evdir = os.environ.get("VERIF_EVIDENCE_DIR") or os.path.join(VERIF, "evidence")
    os.makedirs(evdir, exist_ok=True)
    with open(os.path.join(evdir, pid + ".json"), "w") as f:
        json.dump(ev, f, indent=1)
