"""known_findings.txt: committed list of recorded-but-unrepaired defects and of fixed ones.
  known: property=C06 obligation=<name> class=<text> -- <what fails>
  fixed: property=C07 <commit> <what failed>
A `known` entry never suppresses a different failing input of the same obligation: generated
harnesses assume the listed class away and a companion harness shows the class still fails."""
import os, re
from common import *

PATH = os.path.join(VERIF, "known_findings.txt")


def load(pid=None):
    out = []
    if not os.path.exists(PATH):
        return out
    for line in read(PATH).splitlines():
        line = line.strip()
        if not line or line.startswith("#"):
            continue
        m = re.match(r"(known|fixed):\s+property=(C\d+)\s+(.*)$", line)
        if not m:
            raise Broken("malformed known_findings.txt line: " + line)
        kind, p, rest = m.groups()
        if pid and p != pid:
            continue
        e = {"kind": kind, "property": p, "text": rest, "seen": False}
        for k, v in re.findall(r"(\w+)=(\"[^\"]*\"|\S+)", rest.split(" -- ")[0]):
            e[k] = v.strip('"')
        out.append(e)
    return out
