"""Engine K: run Kani harnesses that live in #[cfg(kani)] child modules of the real source
files (scratch copy), classify the outcome per harness, and replay counterexamples natively
with `cargo kani playback` (the harness body executed on concrete bytes against the real code)."""
import json, os, re, shutil
from common import *
import scratch

KANI_TARGET = os.path.join(CACHE, "kani-target")
PLAYBACK_TARGET = os.path.join(CACHE, "kani-playback-target")
ZFLAGS = ["-Z", "function-contracts", "-Z", "stubbing", "-Z", "unstable-options"]


class HarnessResult:
    def __init__(self, name):
        self.name = name            # pretty name, e.g. gc::verif_kani::c13__...
        self.status = "missing"     # success | failure | undecided | missing
        self.failed = []            # [{description, function, file, line, category}]
        self.reason = ""
        self.seconds = 0.0
        self.solver_s = 0.0
        self.symex_s = 0.0
        self.total_checks = 0
        self.stubs = []
        self.kind = ""
        self.covers = 0

    @property
    def short(self):
        return self.name.split("::")[-1]


def _noise(line):
    return (line.startswith("warning") or re.match(r"^\s*(\||=|-->|\d+ \||\.\.\.)", line) or not line.strip())


def build_and_verify(crate, filters, jobs=None, harness_timeout=600, wall_timeout=None, extra=None, exact=False):
    """One `cargo kani -p <crate>` run over all harnesses matching `filters`.
    Returns (results: {short_name: HarnessResult}, raw_output, meta)."""
    os.makedirs(CACHE, exist_ok=True)
    out_json = os.path.join(WORK, "kani-%s-%d.json" % (crate, os.getpid()))
    if os.path.exists(out_json):
        os.remove(out_json)
    cmd = ["cargo", "kani", "-p", crate, "--target-dir", KANI_TARGET] + ZFLAGS
    for f in filters:
        cmd += ["--harness", f]
    if exact:
        cmd += ["--exact"]
    cmd += ["-j", str(jobs or NCPU), "--output-format", "terse", "--harness-timeout", str(harness_timeout),
            "--export-json", out_json]
    cmd += extra or []
    wall = wall_timeout or (harness_timeout * 3 + 1800)
    rc, out, secs, timed_out = run(cmd, cwd=scratch.SRC, timeout=wall)
    meta = {"cmd": " ".join(cmd), "rc": rc, "seconds": secs}
    if timed_out:
        raise Broken("cargo kani wall timeout after %ds for crate %s" % (wall, crate))
    if not os.path.exists(out_json):
        tail = "\n".join(l for l in out.splitlines() if not _noise(l))[-4000:]
        raise Broken("cargo kani produced no result file for %s (build error?)\n%s" % (crate, tail))
    with open(out_json) as f:
        data = json.load(f)
    os.remove(out_json)
    results = {}
    for h in data.get("harness_metadata", []):
        r = HarnessResult(h["pretty_name"])
        r.kind = h["attributes"]["kind"]
        results[r.name] = r
    for r_ in data.get("verification_results", {}).get("results", []):
        r = results.setdefault(r_["harness_id"], HarnessResult(r_["harness_id"]))
        r.seconds = r_.get("duration_ms", 0) / 1000.0
        checks = r_.get("checks", [])
        r.total_checks = len(checks)
        bad = [c for c in checks if c.get("status") not in ("Success", "Unreachable", "Satisfied", "Unsatisfiable", "Covered", "Uncovered")]
        covers = [c for c in checks if c.get("status") in ("Satisfied", "Unsatisfiable") or c.get("category") == "cover"]
        r.covers = len(covers)
        vac = [c for c in covers if c.get("status") != "Satisfied"]
        if vac and r_["status"] == "Success":
            # vacuity guard: a `kani::cover!` that cannot be reached although nothing failed means the
            # assumptions exclude everything (when an assertion fails on every path the cover behind it is
            # unreachable too -- that case is a failure, handled below)
            r.status = "undecided"
            r.reason = "vacuous harness: cover not satisfiable: " + "; ".join((c.get("description") or "")[:80] for c in vac[:3])
        elif r_["status"] == "Success":
            r.status = "success"
        elif not checks:
            r.status = "undecided"
            r.reason = "no check results (timeout / out of memory / CBMC error)"
        else:
            fails = [c for c in bad if c.get("status") == "Failure"]
            undet = [c for c in bad if c.get("status") != "Failure"]
            unwind = [c for c in fails if c.get("category") in ("unwind",) or "unwinding assertion" in c.get("description", "")]
            unsupported = [c for c in fails if c.get("category") in ("unsupported_construct",) or "not currently supported by Kani" in c.get("description", "")]
            # Kani's optional float checks ("NaN on addition" ..) flag NaN production, which is not a panic
            nan = [c for c in fails if (c.get("description") or "").startswith("NaN on")]
            real = [c for c in fails if c not in unwind and c not in unsupported and c not in nan]
            if nan and not real and not unwind and not unsupported and not undet:
                r.status = "success"
                r.reason = "only NaN-production checks failed (not panics)"
                continue
            if real and not unwind:
                r.status = "failure"
                for c in real:
                    loc = c.get("location", {})
                    r.failed.append({"description": c.get("description"), "function": c.get("function"),
                                     "file": loc.get("file"), "line": loc.get("line"), "category": c.get("category")})
            elif unwind:
                r.status = "undecided"
                r.reason = "unwinding assertion failed (bound too small): " + "; ".join(c.get("function", "") for c in unwind[:3])
            elif unsupported:
                r.status = "undecided"
                r.reason = "unsupported construct reached: " + "; ".join(c.get("description", "") for c in unsupported[:3])
            elif undet:
                r.status = "undecided"
                r.reason = "undetermined checks: %d" % len(undet)
            else:
                r.status = "undecided"
                r.reason = "Kani reported failure without failed checks"
    for c in data.get("cbmc", []):
        r = results.get(c["harness_id"])
        if r:
            st = c.get("cbmc_stats") or {}
            r.solver_s = st.get("runtime_solver_s") or 0.0
            r.symex_s = st.get("runtime_symex_s") or 0.0
    # stubs listed in the textual output
    cur = None
    for line in out.splitlines():
        m = re.search(r"Checking harness (\S+?)\.\.\.", line)
        if m:
            cur = m.group(1)
        m = re.search(r"- (Stub|Verified stub): (.*)$", line)
        if m and cur in results:
            results[cur].stubs.append(m.group(1) + ": " + m.group(2).strip())
    meta["kani_version"] = data.get("metadata", {}).get("kani_version")
    meta["cbmc"] = data.get("tools", {}).get("cbmc")
    return {r.short: r for r in results.values()}, out, meta


def counterexample(crate, harness_short):
    """Re-run one failing harness with concrete playback; return the generated #[test] text
    (or None) and the decoded values."""
    cmd = ["cargo", "kani", "-p", crate, "--target-dir", KANI_TARGET] + ZFLAGS + [
        "-Z", "concrete-playback", "--concrete-playback=print", "--harness", harness_short,
        "--output-format", "terse", "--harness-timeout", "900"]
    rc, out, secs, timed_out = run(cmd, cwd=scratch.SRC, timeout=1800)
    # Kani prints one test per failed check AND one per satisfied `cover`; the inputs of a cover test need not violate
    # anything, so a test generated for a failed check is preferred
    tests = re.findall(r"```\n(.*?#\[test\]\nfn (kani_concrete_playback_\w+)\(\).*?)```", out, re.S)
    if not tests:
        return None, None, [], out
    failing = [t for t in tests if "Check for `cover`" not in t[0]]
    test_text, test_name = (failing or tests)[0]
    # the doc comment Kani puts in front quotes the failed check's description, which may span lines or contain an
    # unbalanced quote: keep only the test item itself
    test_text = test_text[test_text.index("#[test]"):]
    vals = re.findall(r"^\s*// (.*)\n\s*vec!\[([^\]]*)\]", test_text, re.M)
    decoded = [{"value": v.strip(), "bytes": [int(x) for x in b.replace(" ", "").split(",") if x]} for v, b in vals]
    return test_text, test_name, decoded, out


def playback(crate, module_entry, test_text, test_name):
    """Run the generated test natively against the real code: copy the harness module, append the
    test, point the scratch copy's `mod` line at the copy, `cargo kani playback`, restore."""
    rel = module_entry["path"]
    orig = os.path.join(VERIF, rel)
    copy = os.path.join(WORK, "replay", rel)
    os.makedirs(os.path.dirname(copy), exist_ok=True)
    with open(copy, "w") as f:
        f.write(read(orig) + "\n" + test_text + "\n")
    srcfile = os.path.join(scratch.SRC, module_entry["file"])
    before = read(srcfile)
    try:
        with open(srcfile, "w") as f:
            f.write(before.replace('"%s"' % orig, '"%s"' % copy))
        cmd = ["cargo", "kani", "playback", "-Z", "concrete-playback", "-Z", "function-contracts", "-Z", "stubbing",
               "-p", crate, "--lib", "--", test_name, "--nocapture"]
        rc, out, secs, timed_out = run(cmd, cwd=scratch.SRC, timeout=3600, env={"CARGO_TARGET_DIR": PLAYBACK_TARGET, "RUST_BACKTRACE": "0"})
    finally:
        with open(srcfile, "w") as f:
            f.write(before)
    reproduced = bool(re.search(r"test \S*%s \.\.\. FAILED" % re.escape(test_name), out))
    passed = bool(re.search(r"test \S*%s \.\.\. ok" % re.escape(test_name), out))
    keep = [l for l in out.splitlines() if not _noise(l)]
    # the panic message and test verdict
    i = next((k for k, l in enumerate(keep) if l.startswith("running ")), max(0, len(keep) - 30))
    return {"reproduced": reproduced, "passed": passed, "native_output": "\n".join(keep[i:i + 40])}
