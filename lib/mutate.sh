#!/bin/bash
# usage: mutate.sh <file> <perl-subst> <check args...> : apply a one-off edit to /repo, run the check, revert
f=$1; shift; sub=$1; shift
cd /repo && perl -0pi -e "$sub" "$f" && git diff --stat | tail -1
cd /verif && ./check "$@" 2>&1 | grep -v conda | grep -E "VIOLATION|UNDECIDED|BROKEN|discharged" | cut -c1-300
cd /repo && git checkout -- "$f"
