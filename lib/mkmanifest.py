#!/usr/bin/python3
"""Regenerates MANIFEST.json from the per-property tables below (kept in one place so it stays valid)."""
import json, os
V = os.path.dirname(os.path.dirname(os.path.abspath(__file__)))

CLAIMED = {
 "C13": dict(
    text="Proof of the share-or-copy machinery. Kani (full i32 domain): function contracts on the real Generation methods, lemmas over them, coherence of the collector's mark test with the cloner's share test on a real one-object heap. Verus (unbounded, bodies extracted every run): Value::generation, Cloner::{new, force_full_clone, deep_clone, deep_clone_inner, deep_clone_array, deep_clone_ptr (visited map keyed by object address; remembered copies are never forgotten)}, Gc::new_child_gc, Thread::can_share_values_with (parent-chain walk with an inductive invariant over a thread tree of any depth), Thread::deep_clone_value, RootedValue::re_root, the vm_push of RootedValue, <Reference as Userdata>::deep_clone, <Lazy as Userdata>::deep_clone, the construction step of the thread tree (Thread::new_thread: parent pointer, shared global state, collector one generation younger), and the transfer sites send / reference set / st::set / lazy store (what is kept is the copy made for the owning thread): a pointer crosses uncopied only into its own heap or a descendant's; into an unrelated thread everything is copied; every pointer-carrying array representation has its elements cloned. Found and repaired the string-array defect.",
    note="Trusted: env.rs stand-ins; the per-representation helper deep_clone_str and Userdata::deep_clone of other userdata are ASSUMED (deep_clone_data, deep_clone_closure and deep_clone_app are proved on their bodies: every field / captured variable is cloned in turn) to return new objects of the receiving heap; thread-tree axiom (child = one level deeper, one generation younger, same global state): its per-edge construction step is proved on new_thread's struct literal, the induction over the tree and that nothing re-parents a thread later stay assumed; get_type_info stubbed in the Kani coherence harness. Not under contract: structural equality of copies, lifetime after the sender is dropped, the glue between the transfer-site units (uninterpreted holdable_by, established by the assumed deep_clone_value contract) and the generation rule proved in the clone unit (DESIGN 6.4).",
    technique="Kani function contracts on compiled code + Verus contracts on mechanically extracted bodies (incl. an inductive loop invariant for the parent-chain walk)",
    design="2/C13"),
 "C17": dict(
    text="Proof (Verus/Z3, unbounded) of sequential contracts on the real bodies of Sender::send, Receiver::try_recv, the send and recv primitives, reference set/get/make_ref and their st twins (extracted mechanically every run), plus inductive lemmas that the contracts imply FIFO exactly-once delivery and last-write-wins for every operation history; lazy force in four synchronous pieces: the arm that starts the evaluation (value marked as being evaluated by the forcing thread: at most one evaluation), the arms for a value being evaluated / computed (forced by the evaluating thread => error at once; by another thread => waits on the registered channel, earlier registrations kept; computed => that value), the success arm (value stored for good) and the failure arm -- the last fails on the real code and is recorded as a known finding with a native demonstration; the outcome reporting of the resume primitive and the dead-thread check of Thread::resume. Partial: coroutine scheduling and the waiter wake-up are not covered.",
    note="Trusted: env.rs stand-in types, R-lock (bodies verified as critical sections), assumed contract of deep_clone_value (structurally equal copy made for its receiver), clone_unrooted as identity, oneshot channel identity, thread identity = address; the async block of force and the waiter continuation are replaced by stand-ins (only their synchronous arms are verified). yield_/spawn, poll/wake scheduling and that stored waiters are actually fired are outside both tools. Known finding C17/lazy/force_thunk_failed is reported, not repaired.",
    technique="Verus contracts on mechanically extracted function bodies + inductive history lemmas",
    design="2/C17"),
 "C01": dict(
    text="Proof of the leaf operations the reference semantics bottoms out in and of the call/return protocol. Verus (unbounded, extracted every run): 21 Stack/StackFrame primitives against a Seq<Value> view, index_from, Deref; call_function_with_upvars (exact / partial / over-application layouts), the PartialApplication arm of do_call, the return statements of execute_ and ExecuteContext::exit_scope; binop/binop_int/binop_byte/binop_bool (operand order, failure leaves the stack untouched); interpreter arms Pop, Slide, Push, PushInt/Byte/Float, GetOffset, Split, ConstructVariant, ConstructRecord, ConstructArray, MakeClosure, TailCall (run-time effect = static effect; constructed value has exactly the top args values as fields in order); Instruction::adjust against the documented stack-effect table, ProgramCounter index safety, the && and || blocks of compile_primitive (short-circuit layout), FunctionEnv::new_stack_var / push_stack_var (which slot a new local denotes), the fix-up of a recursive value in compile_ (placeholder becomes NewRecord/NewVariant with the constructor's layout, the constructor becomes CloseData on the slot of the i-th binding of the group); core::Binder::into_expr (bindings of a record update / constructor application become nested lets in binding order) the base case of the match compilation (the first matching equation wins), the completeness test of compile_constructor (no fall-through alternative only if every constructor of the closed variant has its group) and the test whether the base of a record update may be used in place (only an identifier). Kani (full domain): the 18 arithmetic/comparison interpreter arms (expression text parsed from execute_ every run) against Z / IEEE and the operator-name -> opcode table. Partial: translation to core and compile_ are not under contract.",
    note="Trusted: env.rs stand-ins and rewrite rules listed in evidence; MultiplyInt/DivideInt references are core's checked_mul and the language's `/`; for arms/blocks/tails the wrapper signature is mine (free variables become parameters). Translator and PatternTranslator (other than Binder::into_expr, the no-variables base case, the completeness test and the record-base test), Compiler::compile_ (other than the two blocks of compile_primitive and the rec-value fix-up), the remaining interpreter arms, rename, implicits are unverified.",
    technique="Verus contracts on extracted bodies + generated Kani harnesses over the interpreter arm table",
    design="2/C01"),
 "C06": dict(
    text="Proof (Kani, full argument domains; &str arguments bounded to <= 2 chars and labelled bounded) that every scalar primitive registered in load_int/load_byte/load_char/load_float/load_string - the registered expression text itself, parsed from the tables every run - and each of the 18 arithmetic/comparison arms of the interpreter neither panics nor traps nor exhibits UB on any well-typed argument; Verus contracts on StackFrame::exit_scope (a locked frame is never popped), reset_stack (exactly the frames above the recorded level are removed), the error closures of call_thunk_top and execute_io_top (whatever kind of error ends a top-level evaluation, the frames above the recorded level are removed), the call site evaluating a module's top-level expression (src/query.rs global_inner: a failed evaluation leaves the VM stack as found), host calls of gluon functions (call_any_first + the helper reset_after_error: a failed call is reported through the same stack reset), the ready path of return_future's poll closure (the primitive's frame is unlocked on every path), async_status_push (a failed push becomes Status::Error and cannot itself fail), the blanket async_push of synchronous results (frame unlocked whether or not the push fails), RuntimeResult::vm_push / IO::vm_push (Panic / Exception => Err, stack untouched), ValueArray::get (unchecked element read only behind index < len), the validation head of array::slice, std.random gen_int_range, std.io write_slice_file / read_file (the last three against documented contracts of dependencies). Found and repaired five classes of host-aborting primitives and the missing stack reset of failed host calls (Function::call); found (and recorded as a known finding) that reset_stack does not reclaim the values of a failed run.",
    note="Trusted: debug-profile semantics; alloc::fmt::format stubbed; pow's overflow trap asserted through checked_pow because Kani does not model it; assumed dependency contracts (rand random_range panics on an empty range, Vec::with_capacity panics above isize::MAX bytes, slice indexing panics out of range); 51 table entries (libm floats, string searchers, unicode tables, Thread-dependent) are skipped and listed in evidence; strings longer than 2 chars are not explored; userdata/regex/most IO primitives, unpack_and_call (macro-generated), the callers of call_thunk_top other than global_inner (whose `.await` is dropped: R-await) and the rest of the future plumbing are unverified; in the toplevel unit Context/Stack are projected on frame list + lock flag and reset_stack's contract is assumed (proved in the stack unit). Known finding C06/thread/reset_stack_values is reported, not repaired.",
    technique="generated Kani harnesses (one per primitive!() table entry and per arithmetic interpreter arm) + Verus contracts on extracted bodies",
    design="2/C06"),
 "C07": dict(
    text="Proof of the three limit computations: Kani (symbolic counters, full usize domain) on the real Gc::alloc_owned (accounted memory never exceeds the limit; failure leaves the heap untouched), check_collect, and Gc::new / set_memory_limit (the limit is stored as given); Verus on the real Stack::set_max_stack_size / max_stack_size (limit stored as given), add_new_frame (frame entered iff len + max_stack_size <= limit), enter_scope / enter_scope_excess, on the per-instruction step of static stack accounting (adjust/emit/increase_stack/emit_call), on the tail flag of the && / || operands, on every TailCall arm of the interpreter (frame list shrinks and the new call reuses the returning function's slot: constant stack) on ExecuteContext::exit_scope, and on the head of the frame loop of OwnedContext::execute (every pass -- call, tail call, return -- polls the interrupt flag before dispatching), on Thread::interrupted (a pure poll: it does not write the flag) and on the statements of compile_'s Match arm from the binding of an alternative's pattern to the compilation of its body (the body inherits the tail flag whatever the pattern binds). Also: a spawned thread inherits its spawner's memory limit (Gc::new_child_gc) and stack limit (Thread::new_thread). Found and repaired the header-not-counted defect and the unlimited stack of spawned threads.",
    note="Trusted: get_type_info stubbed; allocated_memory <= isize::MAX; no u32 wrap in len+max_stack_size; operand_fits; the interrupt flag is a pure read for one loop iteration and the rest of the loop body is not in the extracted head; the statement that binds a match alternative's pattern variables is abstracted to an opaque call. That one pass of the loop takes bounded time (extern functions), native-stack depth and the induction over compile_ are not under contract.",
    technique="Kani harnesses on the real allocator + Verus contracts on extracted bodies",
    design="2/C07"),
 "C08": dict(
    text="Partial proof: built-in operator fixity table (real OpTable::get, concrete enumeration, Kani); the span algebra (Span::new/to/between/until/with_*/subspan/from_offset, Location::shift; full u32 domain, Kani) that parser actions and 'spans delimit the text' are built from; and Verus contracts on text extracted every run: the shift/reduce step of the operator-precedence re-parse (lower precedence or equal+both-left reduces, higher or equal+both-right shifts, equal precedence with different associativity is reported as ConflictingFixities), the final fold of reparse (operators still pending group to the right, in order, over all operands; inductive invariant + lemma; the closing assertion and unwraps cannot fire), shrink_hidden_spans against a specification of where each expression kind visibly ends (singleton block flattening included), the fold step of the BlockExpr grammar action (taken from grammar.lalrpop: `e; rest` becomes Do { bound: e, body: rest } spanning start of e .. end of rest), the layout algorithm's context-stack operations (Contexts::push/pop, Offside::new) layout_token, and six pieces of layout_next_token: the implicit top-level block opened at the first token, the CloseBlock arm, the closing of an open implicit block in front of a closing token, the implicit `in` (emitted at the token that ended the binding; body block at the location of the binding), the explicit `in` closing a let/type/rec context (body block opened at the location of the enclosing context, separator flag cleared, OpenBlock queued) and the block separator (a token at the column of a block that already holds an expression gets one separator in front of it), and Tokenizer::block_comment with take_until (a block comment ends at the first `*/` behind its opening and scanning resumes right behind it; EOF error only if there is none; inductive invariants).",
    note="No grouping theorem for reparse as a whole: the token loop that connects step and final fold, the Infixes iterator and error recovery are not under contract; `make_op` is uninterpreted. shrink unit: AST projected on spans and last sub-expressions, slice patterns desugared to length tests, Span::new's ordering contract assumed there (proved by the Kani harness). Of the layout algorithm only the top-level-block, CloseBlock, explicit-in and separator arms, the implicit-in statements, layout_token and the stack operations, of the tokenizer only block_comment/take_until (one-byte primitives bump/lookahead assumed, string operations of the doc-comment branch opaque), of the grammar only that one action are under contract; check_unindentation_limit is assumed not to change the stack. User-declared fixities overriding built-ins is only a structural Verus check (hash maps are intractable for CBMC).",
    technique="Kani harnesses (complete: loop-free or concrete) on compiled code + Verus contracts on functions, blocks, arms and a grammar action extracted from the parser sources",
    design="2/C08"),
 "C20": dict(
    text="Proof that span containment is total and trichotomous and is_macro_expanded exact (Kani, full u32 domain); that FindVisitor::select_spanned, for ANY number of ordered siblings and any cursor, terminates without panic and selects the first containing sibling / the right neighbour (Verus, unbounded, with Kani instances N = 1..4 as bounded twins on the compiled code); and that visit_one and the tuple-pattern arm of visit_pattern never panic, including on an empty sibling list, nor does the as-pattern arm of Suggest::on_pattern on an ill-typed pattern; for record patterns: a field `name = pattern` occupies label..end of pattern (so a cursor inside the nested pattern selects it), the position search reports the label with the type of that field / descends into the nested pattern / reports nothing, and only the variables of the nested pattern (not the label) come into scope for suggestions; the argument index of signature_help is total on empty argument lists (applications with only implicit arguments). Found and repaired the empty-array panic and the unit-pattern panic.",
    note="Verus side: Peekable over the sibling list modelled with std's peek/next semantics, the span closure as a field read, Span::containment's contract taken from the Kani proof. row lookup of a field's type and iterator `position` are named helpers with std semantics; a ghost log records which nodes the search descends into. The rest of the AST traversal (visit_expr, other arms of visit_pattern), scoping in expressions, the rest of signature_help and the metadata queries are not under contract.",
    technique="Kani harnesses on compiled code + Verus contracts on the extracted body (inductive loop invariant), match arms, a closure and a statement range",
    design="2/C20"),
}

NA = {
 "C02": "soundness is a theorem about the whole checker over interned type graphs; the only contract-sized core (substitution/occurs) is intractable for CBMC (probed) and outside Verus's dialect",
 "C03": "principality quantifies over all typings of a term (not a per-call contract); same unreachable code as C02",
 "C04": "a contract for any optimiser pass needs a semantics of core Expr as a spec function over arena/ArcType trees; neither Verus nor Kani can state or discharge it",
 "C05": "collector core is a raw-pointer list with fn-pointer drop dispatch (needs re-modelling for Verus, intractable for CBMC: probed); root enumeration needs live threads",
 "C09": "totality of string-processing loops and a generated parser; bounded lexer run intractable for CBMC (probed), str reasoning unsupported in Verus",
 "C10": "statement is parse(render(doc(ast))) == ast; needs grammar and renderer as spec functions; no function-level contract carries it",
 "C11": "every Pushable/Getable impl needs a live Thread (unconstructible under CBMC) and most are macro-generated; serde bridge is generated code",
 "C12": "round trip through serde-derived (de)serialisers over whole compiled modules; no contract on a function expresses it",
 "C14": "concurrency: Kani has no threads; Verus would need the code rewritten onto its own permission-based primitives (a model, not this code)",
 "C15": "property of salsa memoisation/invalidation across edit histories in macro-generated query groups on an async runtime",
 "C16": "2-run hyperproperty; determinism of safe Rust functions is what both tools already assume",
 "C18": "statement is parse_type(render(t)) == t; needs the type grammar as a spec function; Doc rendering is outside both tools",
 "C19": "std/map.glu, list.glu, json codecs etc. are Gluon programs; Verus and Kani verify Rust only (the Rust primitives underneath are covered under C06)",
}
# properties planned but whose checks are not built yet are listed N/A until they are
PENDING = {
 "C01": "check under construction (VM leaf-operation contracts); not yet claimed",
 "C06": "check under construction (primitive totality); not yet claimed",
 "C07": "check under construction (limit computations); not yet claimed",
 "C08": "check under construction (fixity table + span algebra); not yet claimed",
 "C20": "check under construction (position search core); not yet claimed",
}


def main():
    checks = []
    for pid, c in sorted(CLAIMED.items()):
        checks.append({
            "property_id": pid,
            "quick_cmd": "./check %s --tier quick" % pid,
            "thorough_cmd": "./check %s --tier thorough" % pid,
            "evidence_file": "/verif/evidence/%s.json" % pid,
            "replay_cmd_template": "./check %s --replay {path}" % pid,
            "engine": "contracts",
            "level_claimed": {"category": "proof", "text": c["text"], "design_ref": c["design"]},
            "level_note": c["note"],
            "technique": c["technique"],
        })
    na = dict(NA)
    for k, v in PENDING.items():
        if k not in CLAIMED:
            na[k] = v
    m = {
        "version": 1,
        "setup_cmd": "./check --setup",
        "hooks": {
            "guard": "cfg(kani)",
            "enable": "no commit to /repo: every run copies /repo's working tree to /var/tmp/gluon-verif/src and appends `#[cfg(kani)] #[path=\"/verif/kani/...\"] mod verif_kani;` plus `#[cfg_attr(kani, kani::requires/ensures(..))]` lines there (kani/inject.toml); Verus units are extracted from the working tree text",
            "baseline_off_cmd": "cd /repo && cargo test --workspace --no-fail-fast --offline",
            "source_commits": [],
            "add_only": True,
        },
        "engines": [{"name": "contracts", "path": "/verif/check", "serves_properties": sorted(CLAIMED),
                     "kind_free_text": "contract-based deductive verification of the real code: Kani function contracts/harnesses injected into a scratch copy of the crates, Verus on mechanically extracted function bodies"}],
        "checks": checks,
        "not_applicable": [{"property_id": k, "reason": v} for k, v in sorted(na.items())],
        "notes": "exit 2 from a check means undecided (lost anchor, unsupported construct, timeout), never a violation. See DESIGN.md.",
    }
    with open(os.path.join(V, "MANIFEST.json"), "w") as f:
        json.dump(m, f, indent=1)


if __name__ == "__main__":
    main()
