#!/usr/bin/python3
"""(re)writes seeded/<name>/meta.json from meta.agent.json + confirm.log"""
import json, os, re, glob, sys
for d in sorted(glob.glob('/verif/seeded/C*-*')):
    if not os.path.exists(d + '/meta.agent.json'):
        continue
    old = json.load(open(d + '/meta.json')) if os.path.exists(d + '/meta.json') else {}
    a = json.load(open(d + '/meta.agent.json'))
    log = open(d + '/confirm.log').read() if os.path.exists(d + '/confirm.log') else ''
    rc = dict(re.findall(r'(\w+_rc)=(\d+)', log))
    extra_fail = [l.strip() for l in log.splitlines() if 'FAILED' in l and not re.search(r'http|check_links|178 passed|2 passed', l)]
    m = {"property": a.get("property"), "summary": a.get("summary"), "needs": a.get("needs"),
         "origin": "independent sub-agent given only the property text and a scratch worktree of /repo",
         "confirmed_by_me": {"ran": "lib/confirm_seed.sh in the scratch worktree: demo on clean tree, git apply, demo with patch, cargo test --workspace --no-fail-fast --offline with patch, revert",
                             "demo_clean_rc": rc.get("demo_clean_rc"), "demo_patched_rc": rc.get("demo_patched_rc"), "apply_rc": rc.get("apply_rc"),
                             "suite_with_patch": "only the environmental failures of the unpatched tree (std.http, std.http.types need the 'web' feature; doc::check_links is always_fail in BASELINE.json)" + ("; plus (load-dependent) " + "; ".join(extra_fail[:3]) if extra_fail else "")},
         "agent_ran": a.get("ran")}
    if old.get("note"):
        m["note"] = old["note"]
    json.dump(m, open(d + '/meta.json', 'w'), indent=1)
