from common import *
def run_unit(unit):
    raise Broken("verus engine not built yet")
