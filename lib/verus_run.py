"""Engine V: extract function bodies mechanically from /repo's working tree, apply only the named
rewrite rules listed per function in verus/<unit>/spec.toml, splice the contract between
signature and body, wrap with verus/<unit>/env.rs and run `verus <file>`.

What is verified is the repository's statement text; env.rs (types, assumed callee contracts,
spec functions, lemmas) and the contracts are ours and are listed in evidence as the trusted
base.  Anything the rewrite list cannot express => Broken (exit 2), never an alarm."""
import json, os, re, tomllib
from common import *
import rustscan

RULES = {
    "R-sig": "signature adapted to the env types: generics/lifetimes dropped, receiver made &mut where the body mutates through a lock/cell, parameter types mapped to env stand-ins",
    "R-ret": "return value given a name so `ensures` can refer to it (no semantic change)",
    "R-log": "logging statement deleted (debug!/info!/trace!/error!)",
    "R-unsafe": "`unsafe { E }` -> `{ E }`; Rust's own unsafety obligations are not checked by Verus",
    "R-assert": "assert!/assert_eq!/debug_assert! -> `if !(c) { rt_panic() }` with rt_panic() requires false: panic-freedom becomes a proof obligation; where the assertion is itself the guard that establishes the postcondition (ProgramCounter::new / jump) it becomes `if !(c) { rt_guard() }` (may fire, never returns) and the contract is stated on return",
    "R-ice": "ice!/panic!/unreachable!/unwrap-on-None -> rt_panic() likewise",
    "R-lock": "`.lock().unwrap()` / `.read().unwrap()` / `.write().unwrap()` dropped: the function is verified as the critical section it is; lock acquisition, poisoning and concurrency are not modelled",
    "R-index": "Index/IndexMut sugar on Stack/StackFrame replaced by the body of the real Index impl (`self.values[i]`)",
    "R-frame": "`self.frames.last()` field reads projected to a `cur_frame` value",
    "R-cast": "numeric cast rewritten to the env helper with the same machine semantics (Verus then proves it lossless or the obligation fails)",
    "R-gc": "construct_gc!(T { @a: x, b }) -> T { a: x, b }; clone_unrooted()/unrooted()/get_value() treated as identity on the abstract value: rooting discipline is not modelled",
    "R-inv": "loop invariant / decreases clause inserted after a loop header (specification only)",
    "R-ghost": "ghost/proof statement inserted (specification only, erased at run time)",
    "R-iter": "iterator adapter or for-loop rewritten to the equivalent indexed while loop",
    "R-err": "error-value construction mapped to the env's abstract error constructor (payload formatting dropped)",
    "R-path": "path/generic syntax adapted (turbofish, crate:: prefixes, trait-qualified calls) with no change of callee",
    "R-map": "`r.map(C)` / `r.map(|v| E)` on a Result desugared to `match r { Ok(v) => Ok(C(v)), Err(e) => Err(e) }` (the definition of Result::map); where the mapped callee is a gc allocation or trait-object call it is named by the env helper carrying its assumed contract",
    "R-arm": "a match arm of the interpreter loop wrapped as a function (signature from spec.toml: pattern variables become parameters, `self` becomes the context parameter); only the arm's own statements are verified, not the dispatch -- except for arm GROUPS (`group = <scrutinee>`), where every arm whose header matches is taken in source order and re-assembled as a `match` on the scrutinee parameter, so guards and arm order are verified too",
    "R-block": "one block expression of a function (located by its header) wrapped as a function whose parameters are the block's free variables; only that block's statements are verified",
    "R-head": "the statements of a function (or, with `inside`, of one located block in it) from its beginning up to a located statement (e.g. the argument validation in front of an allocation, the poll at the head of a loop body), wrapped as a function that returns a marker when the end of the head is reached",
    "R-tail": "the statements of a function (or, with `inside`, of one located block in it: a loop body, a closure body) from a located statement to the end of that body -- or, with `end`, up to another located statement -- wrapped as a function whose parameters are the live variables at that point",
    "R-await": "`.await` dropped: the extracted statements are verified as if the awaited future completed in place; suspension, scheduling and cancellation are not modelled",
    "R-slice": "slice/Vec API call mapped to the env helper with the std semantics stated as its contract",
}


ADAPT_ONLY = {"R-err", "R-log", "R-ice", "R-unsafe", "R-lock", "R-gc"}


def _apply_rewrites(text, rewrites, where):
    fired = []
    for rw in rewrites:
        rule, pat, rep = rw[0], rw[1], rw[2]
        if rule not in RULES:
            raise Broken("unknown rewrite rule %s in %s" % (rule, where))
        new, n = re.subn(pat, rep, text, flags=re.S)
        # Rules that only ADAPT a construct to the env (error payloads, logging, unsafe blocks, lock guards, rooting,
        # unreachable!) may match nothing: if the construct is gone the contract decides, if it merely changed shape the
        # un-adapted text is rejected by Verus (exit 2).  Rules that INSERT specification or restructure control flow
        # (R-inv, R-ghost, R-iter, R-assert, R-sig, R-ret, ..) must match, or a proof would fail for no semantic reason.
        minimum = rw[3] if len(rw) > 3 else (0 if rule in ADAPT_ONLY else 1)
        if n < minimum:
            raise Broken("rewrite %s %r no longer applies in %s (source changed shape; check needs maintenance)" % (rule, pat, where))
        text = new
        fired.append({"rule": rule, "pattern": pat, "count": n})
    return text, fired


def _check_structs(spec):
    for sc in spec.get("struct_check", []):
        src = read(os.path.join(REPO, sc["file"]))
        masked = rustscan.mask(src)
        try:
            _, ob, cb = rustscan.find_block(src, masked, r"(?:pub\s+)?(?:struct|enum)\s+" + re.escape(sc["name"]) + r"\b[^;{(]*\{")
        except rustscan.ScanError:
            raise Broken("struct/enum %s not found in %s" % (sc["name"], sc["file"]))
        body = masked[ob:cb]
        for fld in sc.get("fields", []):
            if not re.search(r"\b%s\b" % re.escape(fld), body):
                raise Broken("field/variant %s of %s disappeared from %s" % (fld, sc["name"], sc["file"]))


def _extract_arm(arm):
    """Cut one arm out of a `match` inside a function: returns (raw arm expression text, line number)."""
    src = read(os.path.join(REPO, arm["file"]))
    try:
        f = rustscan.find_fn(src, arm["fn"], within=arm.get("within"), nth=arm.get("nth", 0))
    except rustscan.ScanError as e:
        raise Broken("lost anchor %s in %s: %s" % (arm["fn"], arm["file"], e))
    masked = rustscan.mask(src)
    try:
        _, ob, cb = rustscan.find_block(src, masked, arm["match"], f.body_open, f.body_close)
    except rustscan.ScanError:
        raise Broken("match block %r not found in %s::%s" % (arm["match"], arm["file"], arm["fn"]))
    region_m = masked[ob + 1:cb]
    depth = 0
    depth_at = []
    for ch in region_m:
        depth_at.append(depth)
        if ch in "([{":
            depth += 1
        elif ch in ")]}":
            depth -= 1
    hits = [m for m in re.finditer(arm["pattern"], region_m) if depth_at[m.start()] == 0]
    if not hits:
        raise Broken("arm %r not found in %s::%s" % (arm["pattern"], arm["file"], arm["fn"]))
    if arm.get("group"):
        # every arm whose header matches is taken, in source order, and re-assembled into a `match` on the scrutinee
        # parameter: guards and the order of the arms are then part of the verified text
        parts = []
        for hit in hits:
            i = hit.end()
            while region_m[i].isspace():
                i += 1
            if region_m[i] == "{":
                j = rustscan.match_close(region_m, i) + 1
            else:
                j = i
                while j < len(region_m) and not (region_m[j] == "," and depth_at[j] == 0):
                    j += 1
            parts.append(src[ob + 1 + hit.start(): ob + 1 + j])
        body = "{ match %s {\n%s,\n_ => rt_panic(),\n} }" % (arm["group"], ",\n".join(parts))
        return body, src.count("\n", 0, ob + 1 + hits[0].start()) + 1
    hit = hits[0]
    i = hit.end()
    while region_m[i].isspace():
        i += 1
    if region_m[i] == "{":
        j = rustscan.match_close(region_m, i)
        body = src[ob + 1 + i: ob + 1 + j + 1]
    else:
        j = i
        while j < len(region_m) and not (region_m[j] == "," and depth_at[j] == 0):
            j += 1
        body = "{ " + src[ob + 1 + i: ob + 1 + j] + ("" if arm.get("value") else ";") + " }"
    line = src.count("\n", 0, ob + 1 + hit.start()) + 1
    return body, line


def _extract_block(blk):
    """Cut one whole block expression (e.g. `match .. { .. }`) out of a function by its header regex."""
    src = read(os.path.join(REPO, blk["file"]))
    if "fn" not in blk:
        # a block that is not inside a Rust `fn` item (a semantic action of the LALRPOP grammar): the region is the block
        # that follows the `after` anchor (the production's header)
        masked = rustscan.mask(src)
        try:
            _, lo, hi = rustscan.find_block(src, masked, blk["after"])
            a, ob, cb = rustscan.find_block(src, masked, blk["header"], lo, hi)
        except rustscan.ScanError:
            raise Broken("block %r after %r not found in %s" % (blk["header"], blk["after"], blk["file"]))
        return src[a:cb + 1], src.count("\n", 0, a) + 1
    try:
        f = rustscan.find_fn(src, blk["fn"], within=blk.get("within"), nth=blk.get("nth", 0))
    except rustscan.ScanError as e:
        raise Broken("lost anchor %s in %s: %s" % (blk["fn"], blk["file"], e))
    masked = rustscan.mask(src)
    try:
        a, ob, cb = rustscan.find_block(src, masked, blk["header"], f.body_open, f.body_close)
    except rustscan.ScanError:
        raise Broken("block %r not found in %s::%s" % (blk["header"], blk["file"], blk["fn"]))
    return src[a:cb + 1], src.count("\n", 0, a) + 1


def _region(t, f, src, masked):
    """statement region: the function body, or (with `inside = <header regex>`) the interior of the first block in the
    function whose header matches -- a loop body, a closure body, an `unsafe` block"""
    if not t.get("inside"):
        return f.body_open, f.body_close
    lo, hi = f.body_open, f.body_close
    for hdr in (t["inside"] if isinstance(t["inside"], list) else [t["inside"]]):
        try:
            _, lo, hi = rustscan.find_block(src, masked, hdr, lo, hi)
        except rustscan.ScanError:
            raise Broken("enclosing block %r not found in %s::%s" % (hdr, t["file"], t["fn"]))
    return lo, hi


def _extract_head(t):
    """The statements of a function from the start of its body up to (excluding) the first depth-0 match of `end`."""
    src = read(os.path.join(REPO, t["file"]))
    try:
        f = rustscan.find_fn(src, t["fn"], within=t.get("within"), nth=t.get("nth", 0))
    except rustscan.ScanError as e:
        raise Broken("lost anchor %s in %s: %s" % (t["fn"], t["file"], e))
    masked = rustscan.mask(src)
    lo, hi = _region(t, f, src, masked)
    region_m = masked[lo + 1:hi]
    depth, depth_at = 0, []
    for ch in region_m:
        depth_at.append(depth)
        if ch in "([{":
            depth += 1
        elif ch in ")]}":
            depth -= 1
    hit = next((m for m in re.finditer(t["end"], region_m) if depth_at[m.start()] == 0), None)
    if hit is None:
        raise Broken("head end %r not found at statement level in %s::%s" % (t["end"], t["file"], t["fn"]))
    b = lo + 1 + hit.start()
    return "{ " + src[lo + 1:b] + (t.get("tail", "")) + " }", src.count("\n", 0, lo) + 1


def _extract_tail(t):
    """The statements of a function from the first depth-0 match of `start` to the end of its body."""
    src = read(os.path.join(REPO, t["file"]))
    try:
        f = rustscan.find_fn(src, t["fn"], within=t.get("within"), nth=t.get("nth", 0))
    except rustscan.ScanError as e:
        raise Broken("lost anchor %s in %s: %s" % (t["fn"], t["file"], e))
    masked = rustscan.mask(src)
    lo, hi = _region(t, f, src, masked)
    if not t.get("start"):
        # the whole interior of the enclosing block
        return "{ " + src[lo + 1:hi] + " }", src.count("\n", 0, lo) + 1
    region_m = masked[lo + 1:hi]
    depth, depth_at = 0, []
    for ch in region_m:
        depth_at.append(depth)
        if ch in "([{":
            depth += 1
        elif ch in ")]}":
            depth -= 1
    hit = next((m for m in re.finditer(t["start"], region_m) if depth_at[m.start()] == 0), None)
    if hit is None:
        raise Broken("tail start %r not found at statement level in %s::%s" % (t["start"], t["file"], t["fn"]))
    a = lo + 1 + hit.start()
    if t.get("end"):
        # a statement RANGE: up to (excluding) the first statement-level match of `end` after the start
        stop = next((m for m in re.finditer(t["end"], region_m) if depth_at[m.start()] == 0 and m.start() > hit.start()), None)
        if stop is None:
            raise Broken("tail end %r not found at statement level in %s::%s" % (t["end"], t["file"], t["fn"]))
        return "{ " + src[a:lo + 1 + stop.start()] + t.get("tail", "") + " }", src.count("\n", 0, a) + 1
    return "{ " + src[a:hi] + " }", src.count("\n", 0, a) + 1


def _falsify(contract):
    """vacuity probe: add `false` to the postcondition; the function must then FAIL to verify, otherwise its
    precondition (or an assumed callee contract on its path) is contradictory."""
    c = contract.rstrip()
    if re.search(r"\bensures\b", c):
        return c.rstrip(",") + ",\n            false,"
    return c + "\n        ensures false,"


def assemble(unit, vacuity=False):
    udir = os.path.join(VERIF, "verus", unit)
    with open(os.path.join(udir, "spec.toml"), "rb") as f:
        spec = tomllib.load(f)
    env = read(os.path.join(udir, "env.rs"))
    _check_structs(spec)
    blocks = {}      # into -> [text]
    order = []
    finfo = {}
    items = ([dict(x, _kind="fn") for x in spec.get("fn", [])] + [dict(x, _kind="arm") for x in spec.get("arm", [])]
             + [dict(x, _kind="block") for x in spec.get("block", [])] + [dict(x, _kind="tail") for x in spec.get("tail", [])] + [dict(x, _kind="head") for x in spec.get("head", [])])
    for fn in items:
        if fn["_kind"] == "arm":
            body_raw, line = _extract_arm(fn)

            class _F:  # duck-typed like rustscan.Fn for the bookkeeping below
                pass
            f = _F()
            f.line = line
            fn = dict(fn, name="arm " + fn["pattern"])
            if fn.get("tail"):
                body_raw = "{ " + body_raw + "; " + fn["tail"] + " }"
            raw = fn["sig"] + " " + body_raw
        elif fn["_kind"] == "head":
            body_raw, line = _extract_head(fn)

            class _F:
                pass
            f = _F()
            f.line = line
            fn = dict(fn, name="head until " + fn["end"] + ((" inside " + str(fn["inside"])) if fn.get("inside") else ""))
            if fn.get("prelude"):       # rebinding of a by-value `mut` parameter (Verus has no `mut` parameters)
                body_raw = "{ " + fn["prelude"] + " " + body_raw + " }"
            raw = fn["sig"] + " " + body_raw
        elif fn["_kind"] == "tail":
            body_raw, line = _extract_tail(fn)

            class _F:
                pass
            f = _F()
            f.line = line
            fn = dict(fn, name="tail from " + fn.get("start", "<block start>") + ((" inside " + str(fn["inside"])) if fn.get("inside") else ""))
            if fn.get("prelude"):
                body_raw = "{ " + fn["prelude"] + " " + body_raw + " }"
            raw = fn["sig"] + " " + body_raw
        elif fn["_kind"] == "block":
            body_raw, line = _extract_block(fn)

            class _F:
                pass
            f = _F()
            f.line = line
            fn = dict(fn, name="block " + fn["header"])
            raw = fn["sig"] + " { " + body_raw + (("; " + fn["tail"]) if fn.get("tail") else "") + " }"
        else:
            src = read(os.path.join(REPO, fn["file"]))
            try:
                f = rustscan.find_fn(src, fn["name"], within=fn.get("within"), nth=fn.get("nth", 0))
            except rustscan.ScanError as e:
                raise Broken("lost anchor %s in %s: %s" % (fn["id"], fn["file"], e))
            raw = f.text
        text = rustscan.strip_comments(raw)
        text, fired = _apply_rewrites(text, fn.get("rewrites", []), fn["id"])
        # splice the contract before the body's opening brace
        m = rustscan.mask(text)
        # first '{' at paren depth 0
        depth, pos = 0, None
        for i, ch in enumerate(m):
            if ch in "([":
                depth += 1
            elif ch in ")]":
                depth -= 1
            elif ch == "{" and depth == 0:
                pos = i
                break
        if pos is None:
            raise Broken("no body found after rewriting %s" % fn["id"])
        contract = fn.get("contract", "").rstrip()
        attrs = "".join("    %s\n" % a for a in fn.get("attrs", []))
        sig, body_text = text[:pos].rstrip(), text[pos:]
        text = attrs + "    " + sig + "\n" + contract + "\n    " + body_text
        if vacuity:
            # a second copy of the function, renamed, with `false` added to its postcondition; it calls the
            # ORIGINAL (unfalsified) callees, so only its own precondition / the assumed contracts on its path are probed
            sig_v, n = re.subn(r"\bfn\s+(\w+)", lambda m: "fn %s__vac" % m.group(1), sig, count=1)
            text += "\n" + attrs + "    " + sig_v + "\n" + _falsify(contract) + "\n    " + body_text
        into = fn.get("into", "")
        if into not in blocks:
            blocks[into] = []
            order.append(into)
        blocks[into].append((fn["id"], text))
        finfo[fn["id"]] = {"source": "%s:%d %s" % (fn["file"], f.line, fn["name"]), "source_sha": sha(raw),
                           "rules": fired, "verus_name": fn.get("verus_name", fn["id"])}
        # twins: the SAME extracted body under another name with another contract, so that a clause that belongs to a
        # different property is a separate obligation (each property's check only answers for its own clause)
        for tw in fn.get("twin", []):
            sig_t, n = re.subn(r"\bfn\s+(\w+)", "fn %s" % tw["rename"], sig, count=1)
            if n != 1:
                raise Broken("twin %s: no fn name to rename in %s" % (tw["id"], fn["id"]))
            ttext = attrs + "    " + sig_t + "\n" + tw["contract"].rstrip() + "\n    " + body_text
            if vacuity:
                ttext += "\n" + attrs + "    " + sig_t.replace("fn %s" % tw["rename"], "fn %s__vac" % tw["rename"], 1) + "\n" + _falsify(tw["contract"]) + "\n    " + body_text
            blocks[into].append((tw["id"], ttext))
            finfo[tw["id"]] = {"source": "%s:%d %s" % (fn["file"], f.line, fn["name"]), "source_sha": sha(raw),
                               "rules": fired, "verus_name": tw.get("verus_name", tw["rename"])}
    out = ["// GENERATED by /verif/lib/verus_run.py from /repo's working tree -- do not edit", "#![allow(unused)]",
           "use vstd::prelude::*;"]
    out += spec.get("unit", {}).get("uses", [])
    out.append("verus! {")
    out.append("// ---- env.rs (hand-written: types, assumed callee contracts, spec fns, lemmas)")
    out.append(env)
    ranges = []
    for into in order:
        out.append("// ---- extracted from /repo (bodies are the repository's text after the named rewrites)")
        if into:
            out.append(into + " {")
            out.append(spec.get("into_prelude", {}).get(into, ""))
        for fid, text in blocks[into]:
            start = sum(x.count("\n") + 1 for x in out) + 1
            out.append(text)
            end = sum(x.count("\n") + 1 for x in out)
            ranges.append((start, end, fid))
        if into:
            out.append("}")
    out.append("} // verus!")
    out.append("fn main() {}")
    text = "\n".join(out) + "\n"
    return spec, text, finfo, ranges


def trusted_scan(env_text, spec):
    t = []
    for m in re.finditer(r"#\[verifier::external_body\]\s*(?:pub\s+)?(?:(?:proof|spec|exec)\s+)?(fn|struct|enum)\s+(\w+)", env_text):
        t.append("verus external_body %s %s" % (m.group(1), m.group(2)))
    for m in re.finditer(r"assume_specification\s*(?:<[^>]*>)?\s*\[\s*([^\]]+)\]", env_text):
        t.append("verus assume_specification %s" % m.group(1).strip())
    for m in re.finditer(r"\b(assume|admit)\s*\(", env_text):
        t.append("verus %s( in env.rs" % m.group(1))
    for m in re.finditer(r"#\[verifier::(external|external_fn_specification|external_type_specification)\]", env_text):
        t.append("verus %s item in env.rs" % m.group(1))
    return t


def vacuity_probe(unit):
    """Returns the list of extracted functions that still verify with `ensures false` added (must be empty)."""
    spec, text, finfo, ranges = assemble(unit, vacuity=True)
    d = os.path.join(WORK, "verus")
    os.makedirs(d, exist_ok=True)
    path = os.path.join(d, "vu_" + unit + "_vacuity.rs")
    with open(path, "w") as f:
        f.write(text)
    cmd = ["verus", path, "--output-json", "--time-expanded", "--rlimit", "30", "--num-threads", str(min(NCPU, 8)), "--multiple-errors", "1"]
    rc, out, secs, timed_out = run(cmd, cwd=d, timeout=900)
    lines = out.splitlines()
    try:
        jstart = next(i for i, l in enumerate(lines) if l == "{")
        jend = max(i for i, l in enumerate(lines) if l == "}")
        data = json.loads("\n".join(lines[jstart:jend + 1]))
    except (StopIteration, ValueError, json.JSONDecodeError):
        raise Broken("verus produced no JSON for the vacuity probe of unit %s" % unit)
    breakdown = {}
    for mod in data.get("times-ms", {}).get("smt", {}).get("smt-run-module-times", []):
        for fb in mod.get("function-breakdown", []):
            breakdown[fb["function"].split("::", 1)[-1]] = fb
    vacuous, probed = [], 0
    for fid, fi in finfo.items():
        fb = breakdown.get(fi["verus_name"] + "__vac")
        if fb is None:
            continue
        probed += 1
        if fb.get("success"):
            vacuous.append(fid)
    return {"probed": probed, "vacuous": vacuous}


def run_unit(unit):
    spec, text, finfo, ranges = assemble(unit)
    d = os.path.join(WORK, "verus")
    os.makedirs(d, exist_ok=True)
    stem = "vu_" + unit
    path = os.path.join(d, stem + ".rs")
    with open(path, "w") as f:
        f.write(text)
    rlimit = str(spec.get("unit", {}).get("rlimit", 30))
    cmd = ["verus", path, "--output-json", "--time-expanded", "--rlimit", rlimit, "--num-threads", str(min(NCPU, 8)), "--multiple-errors", "4"]
    rc, out, secs, timed_out = run(cmd, cwd=d, timeout=int(spec.get("unit", {}).get("timeout", 900)))
    res = {"file": path, "wall_s": round(secs, 2), "functions": {}, "trusted": trusted_scan(read(os.path.join(VERIF, "verus", unit, "env.rs")), spec)}
    used = {}
    for fid, fi in finfo.items():
        for r in fi["rules"]:
            used[r["rule"]] = used.get(r["rule"], 0) + r["count"]
    res["trusted"] += ["rewrite %s x%d: %s" % (k, v, RULES[k]) for k, v in sorted(used.items())]
    if timed_out:
        raise Broken("verus timed out on unit %s" % unit)
    # split stdout JSON from stderr diagnostics (we merged them): JSON object starts at first line == "{"
    lines = out.splitlines()
    try:
        jstart = next(i for i, l in enumerate(lines) if l == "{")
        jend = max(i for i, l in enumerate(lines) if l == "}")
        data = json.loads("\n".join(lines[jstart:jend + 1]))
        diag = "\n".join(lines[:jstart] + lines[jend + 1:])
    except (StopIteration, ValueError, json.JSONDecodeError):
        raise Broken("verus produced no JSON for unit %s:\n%s" % (unit, out[-3000:]))
    vr = data.get("verification-results", {})
    res["summary"] = {k: vr.get(k) for k in ("verified", "errors", "success", "encountered-vir-error")}
    # diagnostics -> function by line range
    errs = []
    for blk in re.split(r"\n(?=error)", diag):
        m = re.match(r"error(?:\[\w+\])?: (.*)", blk)
        if not m:
            continue
        loc = re.search(r"--> %s:(\d+):(\d+)" % re.escape(path), blk) or re.search(r"--> [^\n]*%s\.rs:(\d+):(\d+)" % re.escape(stem), blk)
        line = int(loc.group(1)) if loc else None
        fid = next((f for a, b, f in ranges if line and a <= line <= b), None)
        errs.append({"message": m.group(1).strip(), "line": line, "function": fid, "text": blk.strip()[:1500]})
    hard = [e for e in errs if not re.match(r"(postcondition not satisfied|precondition not satisfied|assertion failed|invariant not satisfied|possible arithmetic|possible division|possible bit shift|decreases not satisfied|aborting due|recommendation not met|loop invariant|could not prove termination|cannot show invariant|constructed value may fail|possible truncation|possible cast|Call to non-static function fails to satisfy|unable to prove post-condition of closure|unable to prove)", e["message"], re.I)
            and "rlimit" not in e["message"].lower() and "resource limit" not in e["message"].lower()]
    if vr.get("encountered-vir-error") or hard or (not vr.get("success") and not vr.get("errors")):
        raise Broken("verus rejected unit %s (unsupported construct or type error, not a verification failure):\n%s" % (unit, "\n".join(e["text"] for e in hard[:3]) or diag[-2000:]))
    breakdown = {}
    lemma_names = [l.get("verus_name", l["id"]) for l in spec.get("lemma", [])]
    stray = [e for e in errs if e["function"] is None and not e["message"].startswith("aborting due")
             and not any(n.split("::")[-1] in e["text"] for n in lemma_names)]
    if stray:
        raise Broken("verus reports an error outside the extracted functions of unit %s (env.rs needs maintenance):\n%s" % (unit, stray[0]["text"]))
    for mod in data.get("times-ms", {}).get("smt", {}).get("smt-run-module-times", []):
        for fb in mod.get("function-breakdown", []):
            breakdown[fb["function"].split("::", 1)[-1]] = fb
    names = {fid: fi["verus_name"] for fid, fi in finfo.items()}
    for lem in spec.get("lemma", []):
        names[lem["id"]] = lem.get("verus_name", lem["id"])
        finfo[lem["id"]] = {"source": "verus/%s/env.rs lemma %s" % (unit, lem["id"]), "source_sha": None, "rules": []}
    for fid, vname in names.items():
        fb = breakdown.get(vname)
        fr = {"source": finfo[fid]["source"], "source_sha": finfo[fid]["source_sha"],
              "rules": ["%s x%d" % (r["rule"], r["count"]) for r in finfo[fid]["rules"]]}
        my_errs = [e for e in errs if e["function"] == fid or (e["function"] is None and vname.split("::")[-1] in e["text"])]
        if fb is None:
            # vacuity guard: a function Verus did not send a query for (wrong name, nothing to prove) is never counted as proved
            fr.update(status="undecided", reason="function %s missing from verus function breakdown" % vname)
        else:
            fr.update(time_s=fb.get("time-micros", 0) / 1e6, smt_s=fb.get("time-micros", 0) / 1e6, rlimit=fb.get("rlimit"))
            if fb.get("success"):
                fr["status"] = "success"
            elif any("rlimit" in e["message"].lower() or "resource limit" in e["message"].lower() for e in my_errs):
                fr.update(status="undecided", reason="rlimit exceeded")
            else:
                fr.update(status="failure", errors=[{"message": e["message"], "text": e["text"]} for e in my_errs] or [{"message": "verus reports failure", "text": diag[-1500:]}])
        res["functions"][fid] = fr
    return res
