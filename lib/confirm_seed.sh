#!/bin/bash
# usage: confirm_seed.sh <worktree> <seed dir (patch.diff, demo/run.sh)> <log>
# Confirms: demo passes on clean tree, patch applies+compiles, demo fails with patch, existing suite with patch
# fails only the environmental tests. Leaves the worktree clean.
wt=$1; sd=$2; log=$3
export CARGO_TARGET_DIR=$wt/target CARGO_NET_OFFLINE=true
cd $wt || exit 9
git checkout -q -- . ; git clean -fdq tests/ 2>/dev/null
{
echo "== demo on clean tree"; bash $sd/demo/run.sh > $log.demo_clean 2>&1; echo "demo_clean_rc=$?"
echo "== apply"; git apply $sd/patch.diff; echo "apply_rc=$?"
echo "== demo with patch"; bash $sd/demo/run.sh > $log.demo_patched 2>&1; echo "demo_patched_rc=$?"
# remove demo files before the suite so only the existing tests run
git clean -fdq tests/ 2>/dev/null; git status --short | head -5
echo "== suite with patch"; cargo test --workspace --no-fail-fast --offline > $log.suite 2>&1; echo "suite_rc=$?"
grep -E "^test .*FAILED|\.\.\. .*FAILED|^error: test failed|^    \`-p" $log.suite | sed 's/\x1b\[[0-9;]*m//g' | sort | uniq | head -30
echo "== revert"; git checkout -q -- . ; git clean -fdq tests/ 2>/dev/null; git status --short | head
} > $log 2>&1
