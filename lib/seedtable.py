#!/usr/bin/python3
"""Prints the markdown table of seeded changes vs checks from seeded/*/meta.json and seeded/RESULTS.json"""
import json, os, glob, re
V = os.path.dirname(os.path.dirname(os.path.abspath(__file__)))
res = json.load(open(os.path.join(V, "seeded", "RESULTS.json")))
rows = []
for d in sorted(glob.glob(os.path.join(V, "seeded", "C*-*"))):
    n = os.path.basename(d)
    m = json.load(open(os.path.join(d, "meta.json")))
    r = res.get(n, {})
    viol = [re.sub(r".*replay=/verif/replays/(\S+)\.json.*", r"\1", l).replace("__", "/") for l in r.get("lines", []) if l.startswith("VIOLATION")]
    if r.get("rc") == 1:
        verdict = "**caught**: " + ", ".join(viol[:3])
    elif r.get("rc") == 2:
        verdict = "undecided (exit 2): " + " ".join((r.get("lines") or [""])[0].split()[:14])
    elif r.get("rc") == 0:
        verdict = "missed"
    else:
        verdict = "not run"
    summ = (m.get("summary") or "").replace("\n", " ").replace("|", "/")
    rows.append("| %s | %s | %s |" % (n, summ[:230] + ("..." if len(summ) > 230 else ""), verdict))
print("| seed | change (from the sub-agent's description) | result of `./check <property>` |\n|---|---|---|")
print("\n".join(rows))
c = sum(1 for n, r in res.items() if r.get("rc") == 1)
print("\ncaught %d of %d" % (c, len(rows)))
