"""Scratch copy of /repo's working tree with the Kani modules/attributes injected."""
import os, re, fcntl, tomllib, subprocess
from common import *
import rustscan

SRC = os.path.join(WORK, "src")          # fixed path => cargo fingerprints stay valid between runs


def load_inject():
    with open(os.path.join(VERIF, "kani", "inject.toml"), "rb") as f:
        return tomllib.load(f)


class Lock:
    def __enter__(self):
        os.makedirs(WORK, exist_ok=True)
        self.f = open(os.path.join(WORK, "lock"), "w")
        fcntl.flock(self.f, fcntl.LOCK_EX)
        return self

    def __exit__(self, *a):
        fcntl.flock(self.f, fcntl.LOCK_UN)
        self.f.close()


def injected_text(relfile, inj):
    """Original text of `relfile` from the working tree + attribute lines + mod line."""
    src = read(os.path.join(REPO, relfile))
    edits = []  # (offset, text)
    for a in inj.get("attr", []):
        if a["file"] != relfile:
            continue
        try:
            fn = rustscan.find_fn(src, a["fn"], within=a.get("within"))
        except rustscan.ScanError as e:
            raise Broken("lost anchor %s::%s in %s (%s)" % (a.get("within"), a["fn"], relfile, e))
        indent = re.match(r"[ \t]*", src[src.rfind("\n", 0, fn.sig_start) + 1:fn.sig_start + 1]).group(0)
        line_start = src.rfind("\n", 0, fn.sig_start) + 1
        edits.append((line_start, "".join(indent + l + "\n" for l in a["lines"])))
    for c in inj.get("crate_attr", []):
        if c["file"] == relfile:
            edits.append((0, "".join(l + "\n" for l in c["lines"])))
    out = src
    for off, text in sorted(edits, reverse=True):
        out = out[:off] + text + out[off:]
    for m in inj.get("module", []):
        if m["file"] == relfile:
            out += '\n#[cfg(kani)]\n#[path = "%s"]\nmod %s;\n' % (os.path.join(VERIF, m["path"]), m.get("name", "verif_kani"))
    for c in inj.get("cargo", []):
        if c["file"] == relfile:
            if c["find"] not in out:
                raise Broken("cargo edit anchor missing in %s" % relfile)
            r = c.get("refuse_if_used")
            if r:
                rc = subprocess.run(["grep", "-rIlE", r["pattern"], os.path.join(REPO, r["dir"])], capture_output=True, text=True)
                if rc.stdout.strip():
                    raise Broken("feature %r is now used in %s: %s" % (r["pattern"], r["dir"], rc.stdout.strip()))
            out = out.replace(c["find"], c["replace"])
    return out


def prepare():
    """rsync the working tree to SRC and (re)apply injections.  Files are rewritten only when
    their content changes so that cargo does not rebuild untouched crates."""
    inj = load_inject()
    files = sorted({x["file"] for k in ("attr", "module", "cargo", "crate_attr") for x in inj.get(k, [])})
    os.makedirs(SRC, exist_ok=True)
    cmd = ["rsync", "-a", "--delete", "--exclude", "/target", "--exclude", "/.git"]
    for f in files:
        cmd += ["--exclude", "/" + f]
    cmd += [REPO.rstrip("/") + "/", SRC + "/"]
    rc = subprocess.run(cmd, capture_output=True, text=True)
    if rc.returncode != 0:
        raise Broken("rsync failed: " + rc.stderr)
    changed = []
    for f in files:
        if write_if_changed(os.path.join(SRC, f), injected_text(f, inj)):
            changed.append(f)
    return {"files": files, "rewritten": changed, "inject": inj}
