import json, os, sys, time, hashlib, subprocess, signal, resource

VERIF = os.path.dirname(os.path.dirname(os.path.abspath(__file__)))
REPO = os.environ.get("VERIF_REPO", "/repo")
WORK = os.environ.get("VERIF_WORK", "/var/tmp/gluon-verif")
CACHE = os.path.join(VERIF, ".cache")
NCPU = int(os.environ.get("VERIF_JOBS", os.cpu_count() or 8))

EXIT_OK, EXIT_VIOLATION, EXIT_BROKEN = 0, 1, 2


class Broken(Exception):
    """The check cannot decide (lost anchor, unsupported construct, build error,
    timeout, resource limit).  Never reported as a violation: exit 2."""


def log(*a):
    print(*a, file=sys.stderr, flush=True)


def sha(text):
    return hashlib.sha256(text.encode()).hexdigest()[:16]


def read(path):
    with open(path, encoding="utf-8") as f:
        return f.read()


def write_if_changed(path, text):
    try:
        if read(path) == text:
            return False
    except (FileNotFoundError, UnicodeDecodeError):
        pass
    os.makedirs(os.path.dirname(path), exist_ok=True)
    with open(path, "w", encoding="utf-8") as f:
        f.write(text)
    return True


def run(cmd, cwd=None, env=None, timeout=None, mem_gb=None, stdin=None):
    """Run a command in its own process group with wall + address-space limits; kill the
    whole group on timeout (cargo-kani leaves cbmc running otherwise).
    Returns (rc, stdout+stderr, seconds, timed_out)."""
    def pre():
        os.setsid()
        if mem_gb:
            lim = int(mem_gb * (1 << 30))
            resource.setrlimit(resource.RLIMIT_AS, (lim, lim))
    e = dict(os.environ)
    e.update({"CARGO_NET_OFFLINE": "true", "CARGO_TERM_COLOR": "never"})
    if env:
        e.update(env)
    t0 = time.time()
    p = subprocess.Popen(cmd, cwd=cwd, env=e, stdout=subprocess.PIPE, stderr=subprocess.STDOUT,
                         stdin=subprocess.DEVNULL if stdin is None else subprocess.PIPE,
                         preexec_fn=pre, text=True, errors="replace")
    timed_out = False
    try:
        out, _ = p.communicate(input=stdin, timeout=timeout)
    except subprocess.TimeoutExpired:
        timed_out = True
        try:
            os.killpg(p.pid, signal.SIGKILL)
        except ProcessLookupError:
            pass
        out, _ = p.communicate()
    finally:
        try:
            os.killpg(p.pid, signal.SIGKILL)
        except (ProcessLookupError, PermissionError):
            pass
    return p.returncode, out, time.time() - t0, timed_out
