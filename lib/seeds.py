#!/usr/bin/python3
"""Run the property's check against every kept seeded defect: apply the patch to /repo, run `./check <P>`,
undo.  Writes seeded/RESULTS.json.  usage: seeds.py [seed-name ...]"""
import json, os, subprocess, sys, time
V = os.path.dirname(os.path.dirname(os.path.abspath(__file__)))
names = sys.argv[1:] or sorted(os.listdir(os.path.join(V, "seeded")))
res_path = os.path.join(V, "seeded", "RESULTS.json")
results = json.load(open(res_path)) if os.path.exists(res_path) else {}
for n in names:
    d = os.path.join(V, "seeded", n)
    if not os.path.isdir(d) or not os.path.exists(os.path.join(d, "patch.diff")):
        continue
    pid = n.split("-")[0]
    if subprocess.run(["git", "-C", "/repo", "status", "--porcelain", "--untracked-files=no"], capture_output=True, text=True).stdout.strip():
        sys.exit("/repo is dirty")
    a = subprocess.run(["git", "-C", "/repo", "apply", os.path.join(d, "patch.diff")], capture_output=True, text=True)
    if a.returncode != 0:
        results[n] = {"applied": False, "error": a.stderr[:300]}
        continue
    t0 = time.time()
    try:
        r = subprocess.run([os.path.join(V, "check"), pid, "--tier", "quick"], capture_output=True, text=True, cwd=V,
                           env=dict(os.environ, VERIF_EVIDENCE_DIR="/var/tmp/gluon-verif/seed-evidence"))
    finally:
        subprocess.run(["git", "-C", "/repo", "checkout", "--", "."])
    lines = [l for l in (r.stdout + r.stderr).splitlines() if l.startswith(("VIOLATION", "KNOWN-FINDING", "UNDECIDED", "CHECK-BROKEN")) or "discharged" in l]
    results[n] = {"applied": True, "rc": r.returncode, "detected": r.returncode == 1, "seconds": round(time.time() - t0), "lines": lines[:12]}
    print(n, results[n]["rc"], lines[:4], flush=True)
    json.dump(results, open(res_path, "w"), indent=1)
json.dump(results, open(res_path, "w"), indent=1)
