"""Small comment/string-aware scanner for Rust source text.

Used to (a) locate a function by (enclosing block header, fn name) -- never by
line number -- and (b) cut its signature and body text out of the working tree
so the Verus extractor and the Kani attribute injector operate on the real text.
It is not a parser: it only needs balanced delimiters outside comments,
strings, char literals and lifetimes.
"""
import re


class ScanError(Exception):
    pass


def classify(src):
    """kinds[i] in {0 code, 1 comment, 2 string/char interior}."""
    n = len(src)
    kinds = [0] * n
    i = 0

    def fill(a, b, k):
        for x in range(a, min(b, n)):
            kinds[x] = k

    while i < n:
        c = src[i]
        if c == "/" and i + 1 < n and src[i + 1] == "/":
            j = src.find("\n", i)
            j = n if j < 0 else j
            fill(i, j, 1)
            i = j
        elif c == "/" and i + 1 < n and src[i + 1] == "*":
            depth, j = 1, i + 2
            while j < n and depth:
                if src.startswith("/*", j):
                    depth += 1
                    j += 2
                elif src.startswith("*/", j):
                    depth -= 1
                    j += 2
                else:
                    j += 1
            fill(i, j, 1)
            i = j
        elif c == "r" and re.match(r'r#*"', src[i:i + 8]) and (i == 0 or not (src[i - 1].isalnum() or src[i - 1] == "_")):
            m = re.match(r'r(#*)"', src[i:])
            close = '"' + m.group(1)
            j = src.find(close, i + len(m.group(0)))
            j = n if j < 0 else j + len(close)
            fill(i + len(m.group(0)), j - len(close), 2)
            i = j
        elif c == '"':
            j = i + 1
            while j < n and src[j] != '"':
                j += 2 if src[j] == "\\" else 1
            fill(i + 1, j, 2)
            i = j + 1
        elif c == "'":
            m = re.match(r"'(\\.[^']*|[^'\\])'", src[i:i + 12])
            if m:
                fill(i + 1, i + len(m.group(0)) - 1, 2)
                i += len(m.group(0))
            else:
                i += 1
        else:
            i += 1
    return kinds


def mask(src):
    """Copy of src with comment text and string/char interiors blanked
    (newlines kept) so delimiter matching and regexes cannot be fooled."""
    kinds = classify(src)
    return "".join(ch if (k == 0 or ch == "\n") else " " for ch, k in zip(src, kinds))


def strip_comments(text):
    kinds = classify(text)
    return "".join(ch for ch, k in zip(text, kinds) if k != 1)


OPEN = {"(": ")", "[": "]", "{": "}"}
CLOSE = {v: k for k, v in OPEN.items()}


def match_close(masked, i):
    """masked[i] is an opening delimiter; return index of its partner."""
    stack = []
    n = len(masked)
    j = i
    while j < n:
        ch = masked[j]
        if ch in OPEN:
            stack.append(ch)
        elif ch in CLOSE:
            if not stack or stack[-1] != CLOSE[ch]:
                raise ScanError("unbalanced delimiter at offset %d" % j)
            stack.pop()
            if not stack:
                return j
        j += 1
    raise ScanError("unterminated delimiter at offset %d" % i)


def find_block(src, masked, header, start=0, end=None):
    """Find a block (`impl ..`, `mod ..`, `match ..`) whose header line matches
    the regex `header`, searching masked text; return (hdr_start, open, close)."""
    end = len(src) if end is None else end
    for m in re.finditer(header, masked[start:end]):
        a = start + m.start()
        ob = masked.find("{", start + m.end() - 1 if masked[start + m.end() - 1] == "{" else start + m.end())
        if ob < 0 or ob >= end:
            continue
        # no ';' between header and '{'
        if ";" in masked[start + m.end():ob]:
            continue
        return a, ob, match_close(masked, ob)
    raise ScanError("block header not found: %r" % header)


class Fn:
    def __init__(self, src, item_start, sig_start, body_open, body_close, name):
        self.src = src
        self.item_start = item_start   # start of attributes / doc comments
        self.sig_start = sig_start     # start of `pub fn` / `fn`
        self.body_open = body_open
        self.body_close = body_close
        self.name = name

    @property
    def signature(self):
        return self.src[self.sig_start:self.body_open].strip()

    @property
    def body(self):
        """Text between the outer braces (exclusive)."""
        return self.src[self.body_open + 1:self.body_close]

    @property
    def text(self):
        return self.src[self.sig_start:self.body_close + 1]

    @property
    def line(self):
        return self.src.count("\n", 0, self.sig_start) + 1


def find_fn(src, name, within=None, masked=None, nth=0):
    """Locate `fn <name>` (optionally inside the block whose header matches the
    regex `within`, which may be a list of nested headers)."""
    masked = masked or mask(src)
    lo, hi = 0, len(src)
    if within:
        for hdr in ([within] if isinstance(within, str) else within):
            _, ob, cb = find_block(src, masked, hdr, lo, hi)
            lo, hi = ob + 1, cb
    pat = re.compile(r"(?:pub(?:\s*\([^)]*\))?\s+)?(?:default\s+)?(?:const\s+)?(?:async\s+)?(?:unsafe\s+)?(?:extern\s+\"[^\"]*\"\s+)?fn\s+" + re.escape(name) + r"\b")
    # `extern "C"`: string is masked, so allow blanks
    pat = re.compile(r"(?:pub(?:\s*\([^)]*\))?\s+)?(?:default\s+)?(?:const\s+)?(?:async\s+)?(?:unsafe\s+)?(?:extern\s+\"[^\"]*\"\s+)?fn\s+" + re.escape(name) + r"\b")
    hits = []
    # only functions at depth 0 of the region
    depth = 0
    region = masked[lo:hi]
    depth_at = []
    d = 0
    for ch in region:
        depth_at.append(d)
        if ch in "{":
            d += 1
        elif ch == "}":
            d -= 1
    for m in pat.finditer(region):
        if within and depth_at[m.start()] != 0:
            continue
        hits.append(lo + m.start())
    if len(hits) <= nth:
        raise ScanError("fn %s not found%s" % (name, " in %r" % (within,) if within else ""))
    sig_start = hits[nth]
    # find body: first '{' at paren/bracket depth 0 after the signature, or ';'
    j = sig_start
    pd = 0
    while j < hi:
        ch = masked[j]
        if ch in "([":
            pd += 1
        elif ch in ")]":
            pd -= 1
        elif ch == "{" and pd == 0:
            break
        elif ch == ";" and pd == 0:
            raise ScanError("fn %s has no body" % name)
        j += 1
    body_open = j
    body_close = match_close(masked, body_open)
    # walk back over attributes and doc comments
    item_start = sig_start
    lines_before = src[:sig_start].split("\n")
    # position of start of the line containing sig_start
    pos = sig_start - len(lines_before[-1])
    item_start = pos
    k = len(lines_before) - 2
    while k >= 0:
        s = lines_before[k].strip()
        if s.startswith("#[") or s.startswith("///") or s.startswith("#!["):
            pos -= len(lines_before[k]) + 1
            item_start = pos
            k -= 1
        else:
            break
    return Fn(src, item_start, sig_start, body_open, body_close, name)
